"""A recording stand-in for the `goofit` Python module: every API object is a symbol, every call a record.
The generated Python text is executed with a recording mapping as its namespace, so every assignment is a
declaration event and every name look-up a use event (an undeclared model symbol raises NameError)."""
from __future__ import annotations

import builtins
import sys
import types


class Sym:
    def __init__(self, path):
        self._path = path

    def __getattr__(self, name):
        if name.startswith("__"):
            raise AttributeError(name)
        return Sym(self._path + "." + name)

    def __call__(self, *args, **kw):
        return Call(self._path, args, kw)

    def __repr__(self):
        return self._path


class Call:
    def __init__(self, path, args, kw):
        self.path, self.args, self.kw = path, args, kw
        self.attrs = {}

    def __setattr__(self, k, v):
        if k in ("path", "args", "kw", "attrs"):
            object.__setattr__(self, k, v)
        else:
            self.attrs[k] = v

    def __getattr__(self, k):
        try:
            return self.attrs[k]
        except KeyError:
            raise AttributeError(k) from None

    def __repr__(self):
        return f"{self.path}({', '.join(map(repr, self.args))})"


API_NAMES = ["Variable", "DecayInfo4", "Lineshapes", "FF", "SpinFactor", "SF_4Body", "Amplitude", "Observable", "EventNumber"]


def make_module():
    m = types.ModuleType("goofit")
    names = list(API_NAMES)
    for n in API_NAMES:
        setattr(m, n, Sym(n))
    for i in range(1, 5):
        for j in range(1, 5):
            names.append(f"M_{i}{j}")
            setattr(m, f"M_{i}{j}", Sym(f"M_{i}{j}"))
            for k in range(1, 5):
                names.append(f"M_{i}{j}_{k}")
                setattr(m, f"M_{i}{j}_{k}", Sym(f"M_{i}{j}_{k}"))
    m.__all__ = names
    return m, set(names)


class Namespace(dict):
    """namespace of the executed script: records declare / use events of non-API, non-builtin names"""

    def __init__(self, api):
        super().__init__()
        self.api = api
        self.events = []

    def __setitem__(self, k, v):
        if k not in self.api and not k.startswith("__"):
            self.events.append({"k": "decl", "sym": k})
        super().__setitem__(k, v)

    def __getitem__(self, k):
        if k in self.api or hasattr(builtins, k) or k.startswith("__"):
            return super().__getitem__(k) if k in self else getattr(builtins, k)
        self.events.append({"k": "use", "sym": k})
        return super().__getitem__(k)      # KeyError -> NameError for an undeclared name


def execute(text, predefined=()):
    """-> (namespace, error string | '-');  `predefined`: symbols supplied from outside the text"""
    mod, api = make_module()
    api = set(api) | set(predefined)
    saved = sys.modules.get("goofit")
    sys.modules["goofit"] = mod
    ns = Namespace(api)
    for p in predefined:
        dict.__setitem__(ns, p, Sym(p))
    err = "-"
    try:
        code = compile(text, "<generated goofit python>", "exec")
        exec(code, {"__builtins__": builtins}, ns)  # noqa: S102
    except BaseException as e:  # noqa: BLE001
        err = f"{type(e).__name__}: {e}"
    finally:
        if saved is None:
            sys.modules.pop("goofit", None)
        else:
            sys.modules["goofit"] = saved
    return ns, err
