"""C15 - the chain graph has one node and one labelled edge per decay line."""
from __future__ import annotations

import copy
import json
import random
import re
import subprocess

from . import tlc, decfam, decio, decquery
from . import chainio as cio
from .c12 import flatten_universe, random_chain, shaped_chain
from .core import Outcome, ensure_repo_on_path, finish, pmap, Machinery, chunked

PROP = "C15"
NODE = re.compile(r'^\t(\w+) \[label=<(.*)> ?(.*)\]$')
EDGE = re.compile(r'^\t(\w+)(?::(p\d+))? -> (\w+)(?::(\w+))? \[label=(.+)\]$')
CELL = re.compile(r"<TD[^>]*>(.*?)</TD>")
PORT = re.compile(r'<TD[^>]*PORT="(p\d+)"[^>]*>')


def html_of(name):
    """expected cell text: particle's own EvtGen -> LaTeX -> HTML map, the bare name otherwise (reference data)"""
    from particle import latex_to_html_name
    from particle.converters.bimap import DirectionalMaps
    global _E2L
    try:
        _E2L
    except NameError:
        _E2L, _ = DirectionalMaps("EvtGenName", "LaTexName")
    try:
        return latex_to_html_name(_E2L[name])
    except Exception:  # noqa: BLE001
        return name


def parse_dot(src):
    nodes, edges, other = {}, [], []
    for line in src.splitlines():
        if not line.startswith("\t") or line.startswith("\tgraph [") or line.startswith("\tnode [") or line.startswith("\tedge ["):
            continue
        m = EDGE.match(line)
        if m:
            lab = m.group(5).strip('"')
            edges.append({"src": m.group(1), "port": m.group(2), "dst": m.group(3), "dport": m.group(4), "label": lab})
            continue
        m = NODE.match(line)
        if m:
            cells = CELL.findall(m.group(2))
            if cells == [""]:
                cells = []              # a line without daughters is drawn as one empty cell
            nodes[m.group(1)] = {"cells": cells, "ports": PORT.findall(m.group(2))}
            continue
        other.append(line)
    return nodes, edges, other


def observe_graph(chain, names_html):
    """chain: the real dictionary; returns the obs record of Viewer.tla"""
    from decaylanguage import DecayChainViewer
    v = DecayChainViewer(chain)          # the caller's dictionary itself: drawing must leave it usable (see add_view)
    src = v.to_string()
    nodes, edges, other = parse_dot(src)
    back = {h: n for n, h in names_html.items()}
    inc = {}
    for e in edges:
        inc.setdefault(e["dst"], []).append(e)
    children = {}
    for e in edges:
        children.setdefault((e["src"], e["port"]), []).append(e)
    reached = set()

    def tok(label):
        try:
            return repr(float(label))
        except ValueError:
            return "?" + label

    def node_of(e):
        nid = e["dst"]
        reached.add(nid)
        nd = nodes.get(nid, {"cells": ["?missing-node"], "ports": []})
        kids = []
        for i, _ in enumerate(nd["cells"]):
            port = f"p{i}"
            kids.append([node_of(x) for x in children.get((nid, port), [])] if port in nd["ports"] else [])
        return {"label": tok(e["label"]), "cells": [back.get(c, "?" + c) for c in nd["cells"]], "kids": kids}
    top = [node_of(e) for e in children.get(("mother", None), [])]
    stray = len(other) + sum(1 for n in nodes if n != "mother" and n not in reached) \
        + sum(1 for e in edges if e["src"] != "mother" and e["src"] not in reached) \
        + sum(1 for n, es in inc.items() if len(es) > 1) + sum(1 for e in edges if e["dport"])
    ids = []
    for n in nodes:
        if n == "mother":
            continue
        m = re.fullmatch(r"dec(\d+)", n)
        ids.append(int(m.group(1)) if m else -1)
    # Graphviz refusing the text is an observation; Graphviz not running (time-out / kill under load) is not:
    # retried, and a machinery failure if it persists
    dot_ok = None
    for attempt in range(3):
        try:
            r = subprocess.run(["dot", "-Tsvg"], input=src.encode(), capture_output=True, timeout=120 * (attempt + 1))
        except Exception:  # noqa: BLE001
            continue
        if r.returncode == 0 and b"<svg" in r.stdout:
            dot_ok = True
            break
        if r.returncode > 0 and (b"rror" in r.stderr or b"syntax" in r.stderr):
            dot_ok = False
            break
    if dot_ok is None:
        raise Machinery("Graphviz `dot` could not be run to completion (3 attempts)")
    root = nodes.get("mother", {"cells": ["?no-root"]})
    return {"root_cells": [back.get(c, "?" + c) for c in root["cells"]], "nodes": top, "ids": ids, "nnodes": len(nodes),
            "nedges": len(edges), "stray": stray, "dot_ok": dot_ok}, src


def entries_of(chain_entries, r):
    out = []
    for e in chain_entries:
        fs = []
        for d in e["fs"]:
            if isinstance(d, str):
                fs.append({"n": r(d), "dec": False, "sub": []})
            else:
                (k, v), = d.items()
                fs.append({"n": r(k), "dec": True, "sub": entries_of(v, r)})
        out.append({"bf": repr(float(e["bf"])), "fs": fs})
    return out


def all_names(chain, acc):
    for m, entries in chain.items():
        acc.add(m)
        for e in entries:
            for d in e["fs"]:
                if isinstance(d, str):
                    acc.add(d)
                else:
                    all_names(d, acc)
    return acc


def build_session(args):
    sid, specs, seed = args
    rng = random.Random(seed)
    session = []

    def intern(x, pool):
        """equal sub-objects made *the same* object (a caller that assembles a chain from shared tables)"""
        if isinstance(x, dict):
            x = {k: intern(v, pool) for k, v in x.items()}
        elif isinstance(x, list):
            x = [intern(v, pool) for v in x]
        else:
            return x
        return pool.setdefault(json.dumps(x, sort_keys=True, default=repr), x)

    def add_view(chain, info):
        if rng.random() < 0.3:
            chain = intern(chain, {})
        names = all_names(chain, set())
        nh = {n: html_of(n) for n in names}
        if len(set(nh.values())) != len(nh):
            return                            # two names with the same HTML spelling cannot be told apart in the cells
        pristine = copy.deepcopy(chain)
        obs, dot = observe_graph(chain, nh)
        (m, entries), = pristine.items()
        session.append({"chain": {"m": m, "entries": entries_of(entries, lambda x: x)}, "obs": obs, "info": info, "dot": dot})
        if len(session) % 3 == 1:
            # the same dictionary object drawn once more: judged against what the dictionary said before the first drawing
            obs2, dot2 = observe_graph(chain, nh)
            session.append({"chain": {"m": m, "entries": entries_of(entries, lambda x: x)}, "obs": obs2,
                            "info": info + ["(second viewer made from the same dictionary object)"] if isinstance(info, list)
                            else info, "dot": dot2})

    for kind, payload in specs:
        if kind == "raw":
            add_view(payload, "sweep over the EvtGen names")
            continue
        if kind == "dec":
            src, mother = payload[0], payload[1]
            cz = decio.Concretiser(rng, readable=True)
            cz.zero_literals = True       # a branching fraction written 0 / 0.0 / 0.0000 is a value like any other
            # real EvtGen names (with their HTML spellings) for half of the abstract names
            evt = [n for n in decio.pdg_tables()["evt"] if decio.label_ok(n)]
            for a in ("A", "B", "C", "x", "y", "P0", "P1", "P2", "P3", "P4", "P5", "d0", "d1", "d2", "d3"):
                if rng.random() < 0.6:
                    w = rng.choice(evt)
                    if w not in cz.used:
                        cz._bind(a, w)
            text = decio.render_file(cz, src)
            p, err, _ = decio.parse_text(text)
            if p is None:
                raise Machinery(f"C15 file does not parse: {err!r}\n{text}")
            m = cz.name(mother)
            # the same table drawn several times in one process: fully unfolded, with every daughter kept stable
            # (the same daughter lists, once with and once without decaying daughters), with one daughter stable
            alld = sorted({d for mode in p.list_decay_modes(m) for d in mode})
            variants = [[], alld] + ([[rng.choice(alld)]] if alld else [])
            rng.shuffle(variants)
            for st in variants[: rng.randint(1, 3)]:
                add_view(p.build_decay_chains(m, stable_particles=st), text)
        else:
            c = cio.norm_chain(payload)
            ccz = cio.ChainCZ(rng, cio.chain_names(c), real_only=rng.random() < 0.5, zero=True)
            add_view(cio.build_chain(ccz, c, rng=rng, bf_float=True).to_dict(), json.dumps(c))
    return {"sid": sid, "views": session}


@chunked()
def judge(sessions, wd, o, what):
    tf = wd / f"trace_{len(list(wd.glob('trace_*.json')))}.json"
    tf.write_text(json.dumps([[{"chain": v["chain"], "obs": v["obs"]} for v in s["views"]] for s in sessions]))
    cfg = tlc.cfg_text(constants=dict(Mode="trace", Variant="process_wide", MaxGraphs=0))
    r = tlc.run("Viewer", cfg, workdir=wd, env={"TRACE_FILE": str(tf)}, timeout=3000)
    o.add_tlc(r, what)
    acc = {x["tid"] for x in r.by_tag("ACCEPT")}
    rej = {x["tid"] for x in r.by_tag("REJECT")}
    if acc | rej != set(range(1, len(sessions) + 1)) or acc & rej:
        raise Machinery(f"trace verdicts not total: {len(acc)}+{len(rej)} of {len(sessions)} ({r.stdout_path})")
    fails = {}
    for x in r.by_tag("FAIL"):
        fails.setdefault(x["tid"] - 1, []).append(x)
    return {t - 1: fails[t - 1] for t in rej}


def run(tier, seed, replay_path=None):
    ensure_repo_on_path()
    o = Outcome(PROP, tier, seed)
    rng = random.Random(seed)
    deep = tier == "thorough"
    wd = tlc.new_workdir("c15")
    try:
        for variant, expect in (("process_wide", False), ("reset", True)):
            r = tlc.run("Viewer", tlc.cfg_text(constants=dict(Mode="gen", Variant=variant, MaxGraphs=3), invariants=["Fresh"]),
                        workdir=wd, keep_records=False)
            o.add_tlc(r, f"counter discipline {variant}: Fresh over sessions of <= 3 graphs", expect_violation=expect)
            if expect and "Fresh" not in r.violated:
                raise Machinery("per-graph numbering not refuted by Fresh")
            if not expect and r.violated:
                o.violate("spec-invariant", {"violated": r.violated}, r.stdout_path)
        files = decfam.tlc_files("C10", 0, 2, wd, o, check=False, what="DecGen C10 universe (table sets for the chains)")
        files = [f for f in files if any(s["k"] == "Decay" and s["lines"] for s in f["src"])]
        emitted = flatten_universe(wd, o, 3, 2, True, "Flatten universe (class representation)")
        chains, seen = [], set()
        for e in emitted:
            k = json.dumps(e["c"], sort_keys=True)
            if k not in seen:
                seen.add(k)
                chains.append(e["c"])
        n = 3000 if deep else 300
        specs = []
        for i in range(n):
            if rng.random() < 0.3:
                from .decrand import gen_tables
                src, ms = gen_tables(rng, True)
                specs.append(("dec", (src, ms[0], [])))
            elif rng.random() < 0.5:
                f = rng.choice(files)
                mothers = [s["m"] for s in f["src"] if s["k"] == "Decay"]
                st = rng.choice([[], [], ["B"], ["C"]])
                specs.append(("dec", (f["src"], rng.choice(mothers), [])))
            elif rng.random() < 0.7:
                specs.append(("cls", rng.choice(chains)))
            else:
                specs.append(("cls", random_chain(rng, 6) if rng.random() < 0.8 else shaped_chain(rng, rng.choice(["wide", "deep"]))))
        # a sweep over the whole EvtGen name table (quick: a fifth of it, rotating with the seed): every name once as a cell,
        # every tenth one decaying - names whose HTML spelling is special (primes, bars, sub- and superscripts, slashes)
        # are not left to chance
        evt = sorted(n for n in decio.pdg_tables()["evt"] if " " not in n)
        seen_html, uniq = set(), []
        for n in evt:
            h = html_of(n)
            if h not in seen_html and n != "B0":
                seen_html.add(h)
                uniq.append(n)
        for part in (range(5) if deep else [seed % 5]):
            names = uniq[part::5]
            entries = []
            for j in range(0, len(names) - 2, 6):
                fs = []
                for k, n in enumerate(names[j:j + 6]):
                    if (j + k) % 10 == 9 and j + k + 2 < len(names):
                        fs.append({n: [{"bf": 1.0, "fs": [names[j + k + 1], names[j + k + 2]], "model": "PHSP", "model_params": ""}]})
                    else:
                        fs.append(n)
                entries.append({"bf": round(1.0 / (j // 6 + 2), 6), "fs": fs, "model": "PHSP", "model_params": ""})
            specs.append(("raw", {"B0": entries}))
        sessions_args = [(i, specs[i:i + 3], seed * 29 + i) for i in range(0, len(specs), 3)]
        sessions = pmap(build_session, sessions_args, chunk=4)
        sessions = [s for s in sessions if s["views"]]
        rej = judge(sessions, wd, o, "validate viewer sessions (Viewer trace mode)")
        for s in sessions:
            o.traces += 1
            o.evaluations += len(s["views"])
            for v in s["views"]:
                o.nontrivial.add(json.dumps(v["chain"], sort_keys=True))
        for i, fl in rej.items():
            s = sessions[i]
            o.violate(fl[0]["clause"], {"chains": [v["chain"] for v in s["views"]]},
                      {"clauses": [f["clause"] for f in fl], "diag": fl[0].get("diag"), "dot": [v["dot"] for v in s["views"]][:3],
                       "info": [v["info"] for v in s["views"]]})
        o.notes["graphs"] = sum(len(s["views"]) for s in sessions)
        o.notes["max_lines_in_a_graph"] = max((v["obs"]["nedges"] for s in sessions for v in s["views"]), default=0)
        good = next((copy.deepcopy(s) for i, s in enumerate(sessions) if i not in rej and s["views"][0]["obs"]["nodes"]), None)
        if good is None and not rej:
            raise Machinery("nothing to corrupt for the binding self test")
        if good is not None:
            good["views"][0]["obs"]["nodes"][0]["label"] = "0.123456"
            if not judge([good], wd, Outcome(PROP, tier, seed), "selftest"):
                raise Machinery("binding self test: corrupted edge label accepted")
            o.notes["binding_selftest"] = "rejected"
        for s in sessions[:1]:
            o.sample({"chain": s["views"][0]["chain"], "dot": s["views"][0]["dot"][:1500]})
        o.rule = ("sessions of 3 viewers in one process; chain dictionaries from build_decay_chains on the DecGen C10 table sets "
                  "(several lines per particle, repeated decaying daughters, empty tables, real EvtGen names with HTML "
                  "spellings) and from DecayChain.to_dict(); the DOT source is parsed back into a nested node structure; "
                  "distinct = distinct chain dictionaries")
        o.assumptions = ["cell texts are mapped back to names with particle's EvtGen -> LaTeX -> HTML map (chains whose names "
                         "collide in HTML are skipped)", "edge labels are read back as numbers"]
    finally:
        tlc.cleanup(wd)
    return finish(o)
