"""C04 - charge conjugation is a PDG-consistent involution at every layer."""
from __future__ import annotations

import copy
import json
import random

from . import tlc, decio
from .core import Outcome, ensure_repo_on_path, finish, pmap, Machinery, chunked
from .pdgdata import tables as pdg_tables
from .chainio import META_POOL

# metadata whose values are the documented defaults or other "empty" values: a conjugate keeps them as they are
EDGE_META = [{"model_params": None}, {"model": None, "model_params": None}, {"model": "PHSP", "model_params": None},
             {"model": "", "model_params": ""}, {"model_params": []}, {"model": "SVS", "model_params": 0, "flag": False},
             {"model_params": (1.0, 2.0)}, {"weight": 1, "on": True, "none": None}]

PROP = "C04"


def export_data(path):
    t = pdg_tables()
    evt = {n: {"id": str(v["id"]), "sc": {True: "T", False: "F", "na": "na"}[v["sc"]]} for n, v in t["evt"].items()}
    json.dump({"evt": evt, "pdg2evt": t["pdg2evt"], "evt2pdg": t["evt2pdg"]}, open(path, "w"))
    return len(evt), len(t["pdg2evt"])


def bag(d):
    return sorted([k, v] for k, v in d.items() if v > 0)


def build_calls(args):
    cid, calls = args
    from decaylanguage.utils.particleutils import charge_conjugate_name as f
    out = []
    for n, pdg, style in calls:
        if style == 0:
            r = f(n, pdg) if pdg else f(n)
            r2 = f(r, pdg) if pdg else f(r)
        elif style == 1:
            r = f(n, pdg_name=pdg)
            r2 = f(r, pdg_name=pdg)
        else:
            r = f(name=n, pdg_name=pdg)
            r2 = f(r, pdg)
        out.append({"n": n, "pdg": pdg, "r": r, "r2": r2})
    return {"kind": "calls", "cid": cid, "calls": out}


def build_fs(args):
    cid, kind, pdg, fs, seed = args
    from decaylanguage import DaughtersDict, DecayMode
    rng = random.Random(seed)
    d = {k: v for k, v in fs}
    if kind == "fs":
        dd = DaughtersDict(d)
        cc = dd.charge_conjugate(pdg) if rng.random() < 0.5 else dd.charge_conjugate(pdg_name=pdg)
        return {"kind": "fs", "cid": cid, "pdg": pdg, "fs": fs, "obs": {"fs": bag(cc), "len": len(cc)}}
    if kind == "mode":
        meta = copy.deepcopy(rng.choice(META_POOL + EDGE_META))
        bf = rng.choice([0.5, 1.0, 1e-9, 0.123456789])
        dm = DecayMode(bf, d, **copy.deepcopy(meta))
        before = copy.deepcopy(dm.metadata)
        cc = dm.charge_conjugate(pdg)
        twice = cc.charge_conjugate(pdg)

        def same(a, b):
            # equal *and* of the same types all the way down (None is not '', 1 is not True, [] is not ())
            return a == b and repr(a) == repr(b)
        return {"kind": "mode", "cid": cid, "pdg": pdg, "fs": fs,
                "obs": {"fs": bag(cc.daughters), "bf_same": cc.bf == bf and dm.bf == bf and type(cc.bf) is type(bf),
                        "meta_same": same(cc.metadata, before) and same(dm.metadata, before) and same(twice.metadata, before)}}
    if kind[0] == "tree":
        # the parse-tree layer: the visitor that CDecay uses, applied to a hand-built decay tree once and twice
        from lark import Token, Tree
        from decaylanguage.dec.dec import (ChargeConjugateReplacement, get_decay_mother_name,
                                           get_final_state_particle_names)
        mother = kind[1]
        flat = []
        for k, v in fs:
            flat += [k] * v
        rng.shuffle(flat)
        tree = Tree("decay", [Tree("particle", [Token("LABEL", mother)]),
                              Tree("decayline", [Tree("value", [Token("SIGNED_NUMBER", "1.0")])]
                                   + [Tree("particle", [Token("LABEL", x)]) for x in flat]
                                   + [Tree("model", [Token("MODEL_NAME", "PHSP")])])])

        def read():
            line = next(tree.find_data("decayline"))
            b = {}
            for x in get_final_state_particle_names(line):
                b[x] = b.get(x, 0) + 1
            return get_decay_mother_name(tree), bag(b)
        ChargeConjugateReplacement().visit(tree)
        m1, once = read()
        ChargeConjugateReplacement().visit(tree)
        m2, twice = read()
        return {"kind": "tree", "cid": cid, "fs": fs, "mother": mother,
                "obs": {"once": once, "twice": twice, "mother_once": m1, "mother_twice": m2}}
    # table: the CDecay route for the same decay
    mother, mbar = kind
    flat = []
    for k, v in fs:
        flat += [k] * v
    rng.shuffle(flat)
    text = f"Decay {mother}\n  1.0 {' '.join(flat)} PHSP;\nEnddecay\nCDecay {mbar}\n"
    if cid % 4 == 0:
        # the statement given once more (as when a user file repeats what the main file says): whatever else that does
        # (the table is then listed twice - an observation, section 4), the table found under the name is the conjugate
        text += f"CDecay {mbar}\n"
    p, err, _ = decio.parse_text(text)
    if p is None:
        raise Machinery(f"C04 table text does not parse: {err!r}\n{text}")
    modes = p.list_decay_modes(mbar) if mbar in p.list_decay_mother_names() else [["?no-table"]]
    t = {}
    for x in modes[0]:
        t[x] = t.get(x, 0) + 1
    dd = DaughtersDict(flat).charge_conjugate()
    return {"kind": "table", "cid": cid, "fs": fs, "obs": {"table": bag(t), "dd": bag(dd)}, "text": text}


@chunked()
def judge(cases, wd, o, what, data):
    tf = wd / f"trace_{len(list(wd.glob('trace_*.json')))}.json"
    tf.write_text(json.dumps([{k: v for k, v in c.items() if k not in ("cid", "text")} for c in cases]))
    r = tlc.run("Conj", tlc.cfg_text(), workdir=wd, env={"TRACE_FILE": str(tf), "CONJ_DATA": str(data)}, timeout=3000)
    o.add_tlc(r, what)
    acc = {x["tid"] for x in r.by_tag("ACCEPT")}
    rej = {x["tid"] for x in r.by_tag("REJECT")}
    if acc | rej != set(range(1, len(cases) + 1)) or acc & rej:
        raise Machinery(f"trace verdicts not total: {len(acc)}+{len(rej)} of {len(cases)} ({r.stdout_path})")
    fails = {}
    for x in r.by_tag("FAIL"):
        fails.setdefault(x["tid"] - 1, []).append(x)
    return {t - 1: fails[t - 1] for t in rej}


def run(tier, seed, replay_path=None):
    ensure_repo_on_path()
    o = Outcome(PROP, tier, seed)
    rng = random.Random(seed)
    deep = tier == "thorough"
    wd = tlc.new_workdir("c04")
    try:
        data = wd / "conj_data.json"
        nevt, npdg = export_data(data)
        empty = wd / "empty.json"
        empty.write_text("[]")
        # rule + data: the theorems of the property on the whole installed tables
        invs = ["IdsUnique", "IdNegation", "Involution", "Closure", "InvolutionP", "UnknownNeverAltered", "LayersAgree"]
        r = tlc.run("Conj", tlc.cfg_text(invariants=invs), workdir=wd,
                    env={"TRACE_FILE": str(empty), "CONJ_DATA": str(data)}, keep_records=False)
        o.add_tlc(r, f"theorems on the installed tables ({nevt} EvtGen names, {npdg} PDG names): " + ", ".join(invs))
        if r.violated:
            o.violate("spec-theorem-on-installed-data", {"violated": r.violated}, r.stdout_path)
        t = pdg_tables()
        evt = sorted(t["evt"])
        pdg = sorted(t["pdg2evt"])
        unk = decio.unknown_labels()
        # C -> S: every name, both namings, three call styles, long sequences that cycle the 64-entry cache
        calls = [(n, False, i % 3) for i, n in enumerate(evt)] + [(n, True, i % 3) for i, n in enumerate(pdg)] \
            + [(n, True, 1) for n in evt] + [(n, False, 0) for n in pdg] \
            + [(n, bool(i % 2), i % 3) for i, n in enumerate(rng.sample(unk, 300))] \
            + [("", False, 0), ("ChargeConj(K+)", False, 0), ("K+ ", False, 0), ("k+", False, 0), ("anti-K+", True, 1)]
        rng.shuffle(calls)
        # repeated keys close together (cache hits) and far apart (evicted entries)
        calls = calls + calls[:200] + [c for c in calls[:100] for _ in range(2)]
        chunks = [calls[i:i + 250] for i in range(0, len(calls), 250)]
        cases = [build_calls((i, ch)) for i, ch in enumerate(chunks)]      # one process: one cache, one history
        from decaylanguage.utils.particleutils import charge_conjugate_name
        o.notes["cache_info_after_calls"] = str(getattr(charge_conjugate_name, "cache_info", lambda: "no cache_info")())
        o.notes["name_calls"] = len(calls)
        # final states / modes / tables
        known_dec = [n for n in evt if decio.label_ok(n)]
        pairs = [n for n in known_dec if t["evt_conj"][n] and t["evt_conj"][n] != n and decio.label_ok(t["evt_conj"][n])]
        args = []
        nfs = 20000 if deep else 1200
        for i in range(nfs):
            usepdg = rng.random() < 0.3
            pool = pdg if usepdg else evt
            ks = rng.sample(pool, rng.randint(1, 5))
            r = rng.random()
            if r < 0.3:
                ks.append(rng.choice(unk))
            elif r < 0.65:
                # particles together with their antiparticles (unequal multiplicities), self-conjugate ones:
                # a name set closed under conjugation
                conj_of = (lambda n: t["evt2pdg"].get(t["evt_conj"].get(t["pdg2evt"].get(n)) or "", None)) if usepdg \
                    else (lambda n: t["evt_conj"].get(n))
                ks = [k for k in ks if conj_of(k)]
                ks += [conj_of(k) for k in ks]
            fs = sorted([k, rng.randint(1, 5)] for k in set(ks) if k)
            if not fs:
                fs = [[rng.choice(pool), 2]]
            kind = rng.choice(["fs", "mode"])
            args.append((len(cases) + len(args), kind, usepdg, fs, seed * 3 + i))
        for i in range(3000 if deep else 300):
            m = rng.choice(pairs)
            ks = rng.sample(known_dec, rng.randint(1, 4)) + ([rng.choice([u for u in unk[:300]])] if rng.random() < 0.3 else [])
            if i % 2:
                # a particle together with its antiparticle in one decay line (the visitor meets one after the other)
                ks += [t["evt_conj"][k] for k in ks if t["evt_conj"].get(k)]
            fs = sorted([k, rng.randint(1, 4)] for k in set(ks))
            args.append((len(cases) + len(args), (m, t["evt_conj"][m]), False, fs, seed * 5 + i))
        for i in range(1500 if deep else 200):
            m = rng.choice(pairs)
            ks = rng.sample(known_dec, rng.randint(1, 4))
            if i % 2:
                ks += [t["evt_conj"][k] for k in ks if t["evt_conj"].get(k)]
            fs = sorted([k, rng.randint(1, 3)] for k in set(ks))
            args.append((len(cases) + len(args), ("tree", m), False, fs, seed * 7 + i))
        cases += pmap(build_fs, args)
        rej = judge(cases, wd, o, "judge name calls, final states, modes and CDecay tables (Conj trace)", data)
        for c in cases:
            o.traces += 1
            o.evaluations += len(c.get("calls", [1]))
            o.nontrivial.add(json.dumps([c["kind"], c.get("fs"), c.get("pdg"), c["cid"] if c["kind"] == "calls" else 0]))
        for i, fl in rej.items():
            c = cases[i]
            o.violate(fl[0]["clause"], {"kind": c["kind"], "fs": c.get("fs"), "pdg": c.get("pdg"), "n": fl[0].get("diag", {}).get("n")},
                      {"clauses": [f["clause"] for f in fl][:5], "diag": fl[0].get("diag"), "text": c.get("text")})
        # binding self test
        probe = copy.deepcopy(next((c for i, c in enumerate(cases) if i not in rej and c["kind"] == "fs"), None))
        if probe is None and not rej:
            raise Machinery("binding self test: nothing to corrupt")
        if probe is not None:
            probe["obs"]["fs"][0][1] += 1
            if not judge([probe], wd, Outcome(PROP, tier, seed), "selftest", data):
                raise Machinery("binding self test: corrupted final state accepted")
            o.notes["binding_selftest"] = "rejected"
        o.exhaustive = True
        for c in cases[len(chunks):len(chunks) + 2]:
            o.sample(c)
        o.sample({"calls": cases[0]["calls"][:6]})
        o.rule = ("every EvtGen name and every PDG name under both namings and three call styles, unknown labels, in long "
                  "shuffled sequences with near and far repeats (cache cycled); random final states / decay modes with "
                  "multiplicities 1..5 and JSON-like metadata; CDecay tables for the same decays; the parse-tree visitor applied once "
                  "and twice to hand-built decay trees; distinct = distinct cases")
        o.assumptions = ["ids and self-conjugate flags of the installed particle package are the reference (PDG-consistent = "
                         "consistent with that data)"]
    finally:
        tlc.cleanup(wd)
    return finish(o)
