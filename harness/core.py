"""Common plumbing for the per-property checks: result collection, evidence,
known findings, replay files, parallel map."""
from __future__ import annotations

import hashlib
import json
import os
import sys
import time
from concurrent.futures import ProcessPoolExecutor
from dataclasses import dataclass, field
from pathlib import Path
from typing import Any, Callable, Iterable

ROOT = Path(__file__).resolve().parent.parent
EVID = ROOT / "evidence"
REPLAYS = ROOT / "replays"
FINDINGS = ROOT / "known_findings.json"
REPO = Path(os.environ.get("VERIF_REPO", "/repo"))
GUARD = "DECAYLANGUAGE_VERIF"


class Machinery(RuntimeError):
    """The check itself is broken (exit 2) - never reported as a violation."""


def ensure_repo_on_path() -> None:
    """Always exercise /repo's *current working tree*, not an installed copy."""
    src = str(REPO / "src")
    if src not in sys.path:
        sys.path.insert(0, src)
    os.environ[GUARD] = "1"
    import decaylanguage  # noqa: F401

    p = Path(decaylanguage.__file__).resolve()
    if not str(p).startswith(str((REPO / "src").resolve())):
        raise Machinery(f"decaylanguage imported from {p}, not from {REPO}/src")


@dataclass
class Violation:
    prop: str
    clause: str
    case: Any           # abstract input / history
    detail: Any = None  # concrete rendering, expected vs observed

    def key(self) -> str:
        return hashlib.sha1(json.dumps([self.prop, self.clause, self.case], sort_keys=True,
                                       default=str).encode()).hexdigest()[:16]


@dataclass
class Outcome:
    prop: str
    tier: str
    seed: int
    t0: float = field(default_factory=time.time)
    states: int = 0
    transitions: int = 0
    traces: int = 0                 # traces / behaviours validated against the implementation
    evaluations: int = 0
    nontrivial: set = field(default_factory=set)
    samples: list = field(default_factory=list)
    violations: list[Violation] = field(default_factory=list)
    known: list[tuple[Violation, dict]] = field(default_factory=list)
    notes: dict = field(default_factory=dict)
    assumptions: list[str] = field(default_factory=list)
    tlc_runs: list[dict] = field(default_factory=list)
    exhaustive: bool = False
    rule: str = ""

    def add_tlc(self, res, what: str, *, expect_violation: bool = False) -> None:
        self.states += res.distinct
        self.transitions += res.generated
        self.tlc_runs.append({"what": what, "module": res.module, "generated": res.generated,
                              "distinct": res.distinct, "depth": res.depth,
                              "wall_s": round(res.wall_s, 2), "violated": res.violated,
                              "expected_violation": expect_violation})

    def sample(self, s: Any, limit: int = 6) -> None:
        if len(self.samples) < limit:
            self.samples.append(s)

    def violate(self, clause: str, case: Any, detail: Any = None) -> None:
        v = Violation(self.prop, clause, case, detail)
        f = match_finding(v)
        if f is not None:
            self.known.append((v, f))
        else:
            self.violations.append(v)


# ---------------------------------------------------------------- findings
def load_findings() -> list[dict]:
    if not FINDINGS.exists():
        return []
    return json.loads(FINDINGS.read_text()).get("findings", [])


def match_finding(v: Violation) -> dict | None:
    """A known finding suppresses a violation only if its matcher explains the
    failing input: property id, clause, and every key of `match` found in the case."""
    for f in load_findings():
        if f.get("status") != "known" or f.get("property") != v.prop:
            continue
        if f.get("clause") and f["clause"] != v.clause:
            continue
        m = f.get("match", {})
        case = v.case if isinstance(v.case, dict) else {"case": v.case}
        if all(_contains(case.get(k), want) for k, want in m.items()):
            return f
    return None


def _contains(have: Any, want: Any) -> bool:
    if isinstance(want, dict) and isinstance(have, dict):
        return all(_contains(have.get(k), w) for k, w in want.items())
    if isinstance(want, list) and isinstance(have, list):
        # `want` must occur as a (not necessarily contiguous) subsequence
        it = iter(have)
        return all(any(_contains(h, w) for h in it) for w in want)
    return have == want


# ---------------------------------------------------------------- finishing
def finish(o: Outcome, *, level: str = "model_checking") -> int:
    wall = time.time() - o.t0
    EVID.mkdir(exist_ok=True)
    cov = {
        "states": max(o.states, 0),
        "transitions": max(o.transitions, 0),
        "traces_validated_against_impl": o.traces,
        "samples": o.samples[:8] or ["(none)"],
        "evaluations": o.evaluations or o.traces,
        "distinct_nontrivial": len(o.nontrivial),
        "rule": o.rule,
        "exhaustive": o.exhaustive,
        "tlc_runs": o.tlc_runs,
        **o.notes,
    }
    ev = {
        "property_id": o.prop,
        "tier": o.tier,
        "seed": o.seed,
        "level": level,
        "coverage": cov,
        "assumptions": o.assumptions,
        "wall_s": round(wall, 2),
        "violations": len(o.violations),
        "known_findings_hit": len(o.known),
    }
    (EVID / f"{o.prop}.json").write_text(json.dumps(ev, indent=1, default=str) + "\n")
    seen = set()
    for v, f in o.known:
        if f["id"] in seen:
            continue
        seen.add(f["id"])
        print(f"KNOWN-FINDING: property={o.prop} {f['id']}: {f['what']}")
    if not o.violations:
        print(f"OK property={o.prop} tier={o.tier} states={o.states} transitions={o.transitions} "
              f"traces={o.traces} wall={wall:.1f}s")
        return 0
    d = REPLAYS / o.prop
    d.mkdir(parents=True, exist_ok=True)
    for old in d.glob("*.json"):
        old.unlink()
    shown = set()
    for v in o.violations:
        p = d / f"{v.key()}.json"
        p.write_text(json.dumps({"property": v.prop, "clause": v.clause, "case": v.case,
                                 "detail": v.detail, "seed": o.seed, "tier": o.tier},
                                indent=1, default=str) + "\n")
        if len(shown) < 10 and v.key() not in shown:
            shown.add(v.key())
            print(f"VIOLATION property={o.prop} replay={p}  clause={v.clause}")
    print(f"FAILED property={o.prop}: {len(o.violations)} violation(s); first detail: "
          f"{json.dumps(o.violations[0].detail, default=str)[:600]}")
    return 1


# ---------------------------------------------------------------- time limit for calls into the code under test
import signal
from contextlib import contextmanager


class CodeHang(Exception):
    """the code under test did not return within the limit (reported as a violation, not machinery)"""


@contextmanager
def time_limit(seconds: int):
    """limit on the *CPU time* the call may use (a loop that does not end burns CPU whatever the load of the machine;
    wall-clock time would turn a busy machine into false alarms), with a wall-clock backstop ten times as long"""
    def _raise(signum, frame):
        raise CodeHang(f"no result after {seconds}s of CPU time (or {10 * seconds}s of wall-clock time)")
    old_prof = signal.signal(signal.SIGPROF, _raise)
    old_alrm = signal.signal(signal.SIGALRM, _raise)
    signal.setitimer(signal.ITIMER_PROF, seconds)
    signal.alarm(10 * seconds)
    try:
        yield
    finally:
        signal.setitimer(signal.ITIMER_PROF, 0)
        signal.alarm(0)
        signal.signal(signal.SIGPROF, old_prof)
        signal.signal(signal.SIGALRM, old_alrm)


# ---------------------------------------------------------------- parallel map
class CodeHangFound(Exception):
    """raised in the parent when a worker's call into the code under test did not return"""
    def __init__(self, items):
        super().__init__(f"{len(items)} call(s) into the code under test did not return")
        self.items = items


class _Guard:
    def __init__(self, fn, limit):
        self.fn, self.limit = fn, limit

    def __call__(self, item):
        try:
            with time_limit(self.limit):
                return self.fn(item)
        except CodeHang:
            return ("__hang__", item)


def pmap(fn: Callable, items: Iterable, *, procs: int = 16, chunk: int = 64, limit: int = 60) -> list:
    """parallel map; every call runs under a time limit - a call that does not return is a
    finding about the code under test (CodeHangFound), not a hung check"""
    items = list(items)
    if not items:
        return []
    g = _Guard(fn, limit)
    if procs <= 1 or len(items) < 8:
        out = [g(x) for x in items]
    else:
        with ProcessPoolExecutor(max_workers=procs) as ex:
            out = list(ex.map(g, items, chunksize=max(1, min(chunk, len(items) // procs or 1))))
    hung = [r[1] for r in out if isinstance(r, tuple) and len(r) == 2 and r[0] == "__hang__"]
    if hung:
        raise CodeHangFound(hung)
    return out


def chunked(size=4000, max_bytes=12_000_000):
    """judge large batches in several TLC runs: at most `size` cases and about `max_bytes` of JSON per run (TLC's JSON
    reader gave up on a 109 MB trace file; hundreds of MB are slow anyway)"""
    def wrap(fn):
        def inner(cases, *a, **k):
            out, off = {}, 0
            while off < len(cases):
                n, total = 0, 0
                while off + n < len(cases) and n < size:
                    total += len(json.dumps(cases[off + n], default=str))
                    if n and total > max_bytes:
                        break
                    n += 1
                part = fn(cases[off:off + n], *a, **k)
                out.update({off + i: v for i, v in part.items()})
                off += n
            return out
        inner.__name__ = fn.__name__
        return inner
    return wrap


def seed_from_env(default: int = 20261004) -> int:
    try:
        return int(os.environ.get("VERIF_SEED", default))
    except ValueError:
        return default
