"""Child process of the C20 check: performs a list of read/convert calls in one fresh interpreter and prints
their observable results as JSON (one list).  usage: python -m harness.c20_child '<json list of [cls, path]>'"""
import io
import json
import sys
from contextlib import redirect_stdout

import os
sys.path.insert(0, os.path.join(os.environ.get("VERIF_REPO", "/repo"), "src"))


def strip_time(text):
    return "\n".join(l for l in text.splitlines() if not l.startswith("Generated on"))


def main():
    calls = json.loads(sys.argv[1])
    from decaylanguage.modeling.amplitudechain import AmplitudeChain
    from decaylanguage.modeling.ampgen2goofit import ampgen2goofit, ampgen2goofitpy
    out = []
    for call in calls:
        cls, path = call[0], call[1]
        how = call[2] if len(call) > 2 else "file"
        try:
            buf = io.StringIO()
            with redirect_stdout(buf):
                if how == "text":
                    # the options handed over as a string (read_ampgen(text=...)): the result of the read, the particles
                    # the class says this read has seen and, for the converting classes, the declarations they make
                    from decaylanguage.modeling.goofit import GooFitChain, GooFitPyChain
                    Cls = {"base": AmplitudeChain, "cpp": GooFitChain, "py": GooFitPyChain}[cls]
                    with open(path, encoding="utf_8") as fh:
                        r = Cls.read_ampgen(text=fh.read())
                    lines, states = r[0], r[-1]
                    pars, consts = (r[1], r[2]) if cls == "base" else (Cls.pars, Cls.consts)
                    res = {"kind": "read",
                           "lines": [[str(l), repr(complex(l.amp)), bool(l.fix), l.spinfactor, l.lineshape,
                                      [[str(d), repr(complex(d.amp))] for d in l.daughters]] for l in lines],
                           "pars": json.loads(pars.to_json(orient="split")), "consts": json.loads(consts.to_json(orient="split")),
                           "states": [str(s) for s in states],
                           "particles": sorted(str(x) for x in Cls.all_particles),
                           "intro": sorted(Cls.make_intro(states).splitlines()) if cls != "base" else []}
                elif cls == "base":
                    lines, pars, consts, states = AmplitudeChain.read_ampgen(path)
                    res = {"kind": "read",
                           "lines": [[str(l), repr(complex(l.amp)), bool(l.fix), l.spinfactor, l.lineshape,
                                      [[str(d), repr(complex(d.amp))] for d in l.daughters]] for l in lines],
                           "pars": json.loads(pars.to_json(orient="split")), "consts": json.loads(consts.to_json(orient="split")),
                           "states": [str(s) for s in states]}
                else:
                    text = (ampgen2goofit if cls == "cpp" else ampgen2goofitpy)(path, ret_output=True)
                    res = {"kind": "text", "text": strip_time(text)}
            res["stdout"] = buf.getvalue()
        except Exception as e:  # noqa: BLE001
            res = {"kind": "error", "error": type(e).__name__ + ": " + str(e)[:200]}
        out.append(res)
    print("@@RESULT@@" + json.dumps(out))


if __name__ == "__main__":
    main()
