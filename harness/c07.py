"""C07 - global declarations are reported completely, later declarations winning."""
from __future__ import annotations

import json
import random
import warnings

from . import tlc, decio
from .core import Outcome, ensure_repo_on_path, finish, pmap, Machinery, chunked
from .pdgdata import tables as pdg_tables

PROP = "C07"
INT_SPELL = ["0", "1", "2", "12", "21", "-3", "+4", "100"]
UINT_SPELL = ["0", "1", "2", "3", "12"]
FLOAT_ONLY = [s for s in decio.LITERAL_SPELLINGS if not s.lstrip("+-").isdigit()]
JETSET_MODS = ["PARJ", "MSTJ", "MSTU", "PARU", "MDCY", "x", "Ab"]


def real_particles():
    from particle import Particle
    out = []
    for n in pdg_tables()["evt"]:
        if not decio.label_ok(n):
            continue
        try:
            w = Particle.from_evtgen_name(n).width
        except Exception:  # noqa: BLE001
            continue
        if isinstance(w, float) and w >= 0:
            out.append(n)
    return sorted(out)


_REAL = None


NUMBER_LIKE_NAMES = ["111", "310", "3122", "007", "1e3", "Inf", "nan", "2.5", "1E-2", "0"]


class CZ(decio.Concretiser):
    """adds int ids (k*), jetset module words, real-particle names (R*), float-only literals"""

    def __init__(self, rng, base=None, conj_matters=False, vocab=None):
        super().__init__(rng, base=base, conj_matters=conj_matters, vocab=vocab)
        # a Pythia / JetSet value spelled inf or nan is read as a float by the library; whether that is "a number as a
        # number" or "a word as a word" the property does not say: such spellings are kept out of these values
        self.no_floatlike_words = True
        self.ints = {}
        self.uints = {}
        global _REAL
        if _REAL is None:
            _REAL = real_particles()

    def name(self, a):
        if a.startswith("R") and a[1:].isdigit() and a not in self.names:
            # real particles with pairwise distinct reference widths, so that an observed default width
            # identifies the particle it was taken from
            from particle import Particle
            used = getattr(self, "_widths", set())
            rr = self._r("real", a)
            for _ in range(1000):
                w = self._pick(_REAL, rr)
                width = Particle.from_evtgen_name(w).width
                lit_vals = {float(decio.lit_value(x)) for x in decio.LITERAL_SPELLINGS}
                if width not in used and width > 0 and width / 1000.0 not in lit_vals and -width / 1000.0 not in lit_vals:
                    break
            used.add(width)
            self._widths = used
            self._bind(a, w)
        return super().name(a)

    def pyname(self, a):
        """module / parameter name of a Pythia statement: a word like any other, now and then one spelled like a number
        (Pythia 8 addresses particle data by PDG id: 111:mayDecay) - names are reported verbatim whatever they look like"""
        key = "@" + a
        if key not in self.words:
            r = self._r("pyname", a)
            if r.random() < 0.2:
                for w in r.sample(NUMBER_LIKE_NAMES, len(NUMBER_LIKE_NAMES)):
                    if w not in self.used:
                        self.words[key] = w
                        self.used.add(w)
                        break
            if key not in self.words:
                self.words[key] = self.word(key)
        return self.words[key]

    def lit(self, a):
        if a not in self.lits:
            vals = {decio.lit_value(s) for s in self.lits.values()}
            r = self._r("lit", a)
            for _ in range(1000):
                s = r.choice(FLOAT_ONLY)
                v = decio.lit_value(s)
                if v not in vals and -v not in vals and v != 0:
                    break
            self.lits[a] = s
        return self.lits[a]

    def int_(self, a, unsigned=False):
        d = self.uints if unsigned else self.ints
        if a not in d:
            pool = UINT_SPELL if unsigned else INT_SPELL
            for _ in range(1000):
                s = self.rng.choice(pool)
                if int(s) not in {int(x) for x in d.values()}:
                    break
            d[a] = s
        return d[a]

    def rint(self, x, unsigned=False):
        d = self.uints if unsigned else self.ints
        if type(x) is int:
            for a, s in d.items():
                if int(s) == x:
                    return a
        return "?" + repr(x)

    def jmod(self, a):
        if a not in self.words:
            for _ in range(1000):
                w = self.rng.choice(JETSET_MODS)
                if w not in self.used:
                    break
            self.words[a] = w
            self.used.add(w)
        return self.words[a]


def render_val(cz, v, jet=False):
    if v["t"] == "int":
        return cz.int_(v["v"])
    if v["t"] == "float":
        return cz.lit(v["v"])
    return cz.word(v["v"])


def render(cz, s):
    k = s["k"]
    if k in ("Alias", "ChargeConj", "CopyDecay", "Define", "CDecay", "Decay", "ModelAlias"):
        return decio.render_stmt(cz, s)
    if k == "Particle":
        return f"Particle {cz.name(s['m'])} {cz.lit(s['mass'])}" + ("" if s["width"] == "none" else f" {cz.lit(s['width'])}")
    if k == "Pythia":
        return f"{s['cmd']} {cz.pyname(s['mod'])}:{cz.pyname(s['par'])}={render_val(cz, s['val'])}"
    if k == "JetSet":
        return f"JetSetPar {cz.jmod(s['mod'])}({cz.int_(s['num'], True)})={render_val(cz, s['val'])}"
    if k == "LS":
        return f"{s['ls']} {cz.name(s['m'])}"
    if k == "BW":
        return f"BlattWeisskopf {cz.name(s['m'])} {cz.lit(s['v'])}"
    if k == "MassLim":
        return f"{s['which']} {cz.name(s['m'])} {cz.lit(s['v'])}"
    if k == "IncFactor":
        return f"{s['which']} {cz.name(s['m'])} {s['b']}"
    if k == "LSPW":
        return f"SetLineshapePW {cz.name(s['m'])} {cz.name(s['d1'])} {cz.name(s['d2'])} {cz.int_(s['n'], True)}"
    if k == "Photos":
        return "yesPhotos" if s["v"] == "yes" else "noPhotos"
    raise ValueError(k)


def rval(cz, x):
    if isinstance(x, bool):
        return {"t": "bool", "v": "yes" if x else "no"}
    if type(x) is int:
        return {"t": "int", "v": cz.rint(x)}
    if isinstance(x, float):
        return {"t": "float", "v": cz.rnum(x)}
    return {"t": "str", "v": cz.rword(x)["v"]}


def build(args):
    cid, src, seed = args
    from decaylanguage.dec.enums import PhotosEnum
    from particle import Particle
    rng = random.Random(seed)
    # every other file shares its vocabulary with its neighbours (see decio.Concretiser)
    cz = CZ(rng, vocab=f"{seed - cid}/{cid // 64}" if cid % 2 == 1 else None)
    text = "\n".join(render(cz, s) for s in src) + "\n"
    p, err, _ = decio.parse_text(text)
    if p is None:
        raise Machinery(f"generated global-declaration file does not parse: {err!r}\n{text}")
    o = {}
    with warnings.catch_warnings():
        warnings.simplefilter("ignore")
        o["aliases"] = [{"k": cz.rname(k), "v": cz.rname(v)} for k, v in p.dict_aliases().items()]
        o["cc"] = [{"k": cz.rname(k), "v": cz.rname(v)} for k, v in p.dict_charge_conjugates().items()]
        o["copy"] = [{"k": cz.rname(k), "v": cz.rname(v)} for k, v in p.dict_decays2copy().items()]
        o["defs"] = [{"k": cz.rword(k)["v"], "v": cz.rnum(v)} for k, v in p.dict_definitions().items()]
        o["cdecays"] = [cz.rname(x) for x in p.list_charge_conjugate_decays()]
        try:
            parts = p.get_particle_property_definitions()
            o["particles_error"] = "-"
            pl = []
            for k, v in parts.items():
                w = v["width"]
                wt = cz.rnum(w)
                if wt.startswith("?"):
                    for a, c in cz.names.items():
                        if not (a.startswith("R") and a[1:].isdigit()):
                            continue
                        try:
                            if Particle.from_evtgen_name(c).width / 1000.0 == w:
                                wt = "ref:" + a
                        except Exception:  # noqa: BLE001
                            pass
                pl.append({"k": cz.rname(k), "v": {"mass": cz.rnum(v["mass"]), "width": wt}})
            o["particles"] = pl
        except Exception as e:  # noqa: BLE001
            o["particles_error"] = type(e).__name__
            o["particles"] = []
        o["pythia"] = []
        for cmd, d in p.dict_pythia_definitions().items():
            for key, v in d.items():
                mod, _, par = key.partition(":")
                rv = rval(cz, v)
                o["pythia"].append({"k": [cmd, cz.rword(mod)["v"].lstrip("@"), cz.rword(par)["v"].lstrip("@")], "v": rv})
        o["jetset"] = []
        for mod, d in p.dict_jetset_definitions().items():
            for num, v in d.items():
                o["jetset"].append({"k": [cz.rword(mod)["v"], cz.rint(num, True)], "v": rval(cz, v)})
        try:
            ls = p.dict_lineshape_settings()
            o["ls_error"] = False
            o["ls"] = []
            for name, d in ls.items():
                for setting, v in d.items():
                    if setting == "lineshape":
                        val = v
                    elif isinstance(v, bool):
                        val = "yes" if v else "no"
                    else:
                        val = cz.rnum(v)
                    o["ls"].append({"k": [cz.rname(name), setting], "v": val})
        except RuntimeError:
            o["ls_error"] = True
            o["ls"] = []
        o["lspw"] = [{"ps": [cz.rname(x) for x in ps], "n": cz.rint(n, True)} for ps, n in p.list_lineshapePW_definitions()]
        o["photos"] = "yes" if p.global_photos_flag() == PhotosEnum.yes else "no"
    return {"prop": PROP, "cid": cid, "src": src, "obs": o, "text": text}


def gen_random(rng, big):
    names = ["a1", "a2", "a3", "R1", "R2", "R3", "u1", "u2"]
    words = ["w1", "w2", "w3", "q1", "q2", "q3"]
    lits = [f"n{i}" for i in range(1, 6)]
    ints = ["k1", "k2", "k3"]
    out = []
    for _ in range(rng.randint(0, 30 if big else 8)):
        k = rng.choice(["Alias", "ChargeConj", "Define", "CopyDecay", "CDecay", "Particle", "Pythia", "JetSet", "LS", "BW",
                        "MassLim", "IncFactor", "LSPW", "Photos", "Decay"])
        if k in ("Alias",):
            out.append({"k": k, "m": rng.choice(names[:3] + names[6:]), "src": rng.choice(names[3:6])})
        elif k in ("ChargeConj", "CopyDecay"):
            out.append({"k": k, "m": rng.choice(names), "src": rng.choice(names)})
        elif k == "Define":
            out.append({"k": k, "m": rng.choice(words[:3]), "v": rng.choice(lits)})
        elif k == "CDecay":
            out.append({"k": k, "m": rng.choice(names)})
        elif k == "Particle":
            out.append({"k": k, "m": rng.choice(names[:6]), "mass": rng.choice(lits), "width": rng.choice(["none"] + lits)})
        elif k == "Pythia":
            v = {"t": "float", "v": rng.choice(lits)} if rng.random() < 0.5 else {"t": "str", "v": rng.choice(words)}
            out.append({"k": k, "cmd": rng.choice(["PythiaAliasParam", "PythiaBothParam", "PythiaGenericParam"]),
                        "mod": rng.choice(words[3:]), "par": rng.choice(words[3:]), "val": v})
        elif k == "JetSet":
            v = {"t": "int", "v": rng.choice(ints)} if rng.random() < 0.5 else {"t": "float", "v": rng.choice(lits)}
            out.append({"k": k, "mod": rng.choice(["J1", "J2"]), "num": rng.choice(ints), "val": v})
        elif k == "LS":
            out.append({"k": k, "ls": rng.choice(["LSFLAT", "LSNONRELBW", "LSMANYDELTAFUNC"]), "m": rng.choice(names)})
        elif k == "BW":
            out.append({"k": k, "m": rng.choice(names), "v": rng.choice(lits)})
        elif k == "MassLim":
            out.append({"k": k, "which": rng.choice(["ChangeMassMin", "ChangeMassMax"]), "m": rng.choice(names), "v": rng.choice(lits)})
        elif k == "IncFactor":
            out.append({"k": k, "which": rng.choice(["IncludeBirthFactor", "IncludeDecayFactor"]), "m": rng.choice(names),
                        "b": rng.choice(["yes", "no"])})
        elif k == "LSPW":
            out.append({"k": k, "m": rng.choice(names), "d1": rng.choice(names), "d2": rng.choice(names), "n": rng.choice(ints)})
        elif k == "Photos":
            out.append({"k": k, "v": rng.choice(["yes", "no"])})
        else:
            out.append({"k": "Decay", "m": rng.choice(names), "lines": []})
    # a Particle statement without width must name a real particle, directly or through the *last* alias
    last_alias = {}
    for s in out:
        if s["k"] == "Alias":
            last_alias[s["m"]] = s["src"]
    for s in out:
        if s["k"] == "Particle" and s["width"] == "none":
            tgt = last_alias.get(s["m"], s["m"])
            if not tgt.startswith("R"):
                s["width"] = rng.choice(lits)
    return out


def wf_particle(src):
    """domain of the reference-width clause: the particle behind the name must be real"""
    last_alias = {}
    for s in src:
        if s["k"] == "Alias":
            last_alias[s["m"]] = s["src"]
    for s in src:
        if s["k"] == "Particle" and s["width"] == "none" and not last_alias.get(s["m"], s["m"]).startswith("R"):
            return False
    return True


@chunked()
def judge(cases, wd, o, what):
    tf = wd / f"trace_{len(list(wd.glob('trace_*.json')))}.json"
    tf.write_text(json.dumps([{k: v for k, v in c.items() if k not in ("text", "cid")} for c in cases]))
    r = tlc.run("DecGlobals", tlc.cfg_text(constants=dict(Mode="trace", MaxStmts=0)), workdir=wd, env={"TRACE_FILE": str(tf)})
    o.add_tlc(r, what)
    acc = {x["tid"] for x in r.by_tag("ACCEPT")}
    rej = {x["tid"] for x in r.by_tag("REJECT")}
    if acc | rej != set(range(1, len(cases) + 1)) or acc & rej:
        raise Machinery(f"trace verdicts not total ({r.stdout_path})")
    fails = {}
    for x in r.by_tag("FAIL"):
        fails.setdefault(x["tid"] - 1, []).append(x)
    return {t - 1: fails[t - 1] for t in rej}


def corrupt(c):
    if c["obs"]["aliases"]:
        c["obs"]["aliases"][0]["v"] = "zz"
        return True
    return False


def run(tier, seed, replay_path=None):
    ensure_repo_on_path()
    o = Outcome(PROP, tier, seed)
    rng = random.Random(seed)
    deep = tier == "thorough"
    wd = tlc.new_workdir("c07")
    try:
        ms = 3
        r = tlc.run("DecGlobals", tlc.cfg_text(constants=dict(Mode="gen", MaxStmts=ms), invariants=["FoldEqualsDeclarative"]),
                    workdir=wd)
        o.add_tlc(r, f"DecGlobals gen: every file of <= {ms} statements over the 36-statement universe; fold = declarative reading")
        if r.violated:
            o.violate("spec-invariant", {"violated": r.violated}, r.stdout_path)
        gen = [x["v"]["src"] for x in r.by_tag("case")]
        for inv in ("NoOverride", "NoLSError"):
            rr = tlc.run("DecGlobals", tlc.cfg_text(constants=dict(Mode="gen", MaxStmts=2), invariants=[inv]), workdir=wd,
                         keep_records=False)
            o.add_tlc(rr, f"reachability companion {inv}", expect_violation=True)
            if inv not in rr.violated:
                raise Machinery(f"{inv} not violated")
        gen = [g for g in gen if wf_particle(g)]
        o.notes["universe_files"] = len(gen)
        if replay_path:
            gen = [json.load(open(replay_path))["case"]["src"]]
        else:
            nwin = 30000 if deep else 1500
            if len(gen) > nwin:
                k = len(gen)
                off, step = seed % k, k // nwin
                gen = [gen[(off + i * step) % k] for i in range(nwin)]
                o.notes["universe_window"] = f"{nwin} of {k}, offset {off} step {step}"
            else:
                o.exhaustive = True
            gen += [gen_random(rng, i % 2 == 0) for i in range(5000 if deep else 500)]
        cases = pmap(build, [(i, g, seed * 17 + i) for i, g in enumerate(gen)])
        rej = judge(cases, wd, o, "judge the eleven global queries (DecGlobals trace mode)")
        for c in cases:
            o.traces += 1
            o.evaluations += 1
            o.nontrivial.add(json.dumps(c["src"], sort_keys=True))
        for i, fl in rej.items():
            c = cases[i]
            o.violate(fl[0]["clause"], {"src": c["src"]}, {"clauses": [f["clause"] for f in fl], "diag": fl[0].get("diag"),
                                                           "text": c["text"]})
        import copy
        for i, c in enumerate(cases):
            if i in rej:
                continue
            m = copy.deepcopy(c)
            if corrupt(m):
                if not judge([m], wd, Outcome(PROP, tier, seed), "selftest"):
                    raise Machinery("binding self test: corrupted alias table accepted")
                o.notes["binding_selftest"] = "rejected"
                break
        for c in cases[-2:] + cases[:1]:
            o.sample({"text": c["text"], "photos": c["obs"]["photos"], "ls_error": c["obs"]["ls_error"]})
        o.rule = ("files of global declarations: every sequence of <= 3 statements over the DecGlobals universe (quick: a window) "
                  "plus random files of up to 30 statements of all kinds with repeated names; all eleven queries projected and "
                  "judged; distinct = distinct abstract files")
        o.assumptions = ["reference widths come from the installed particle data (MeV -> GeV by /1000)",
                         "values float() would read (inf, nan) are not used as words"]
    finally:
        tlc.cleanup(wd)
    return finish(o)
