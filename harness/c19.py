"""C19 - C++ and Python GooFit outputs describe the same, self-contained model."""
from __future__ import annotations

import copy
import io
import json
import os
import random
import re
import subprocess
import sys
import tempfile
from contextlib import redirect_stdout
from pathlib import Path

from . import tlc, ampio, goofitio, fakegoofit
from .c18 import judge_emit
from .core import Outcome, ensure_repo_on_path, finish, pmap, Machinery, REPO

PROP = "C19"
KM_SYMS = {"sA_0", "sA", "s0_prod", "s0_scatt", "f_scatt", "IS_poles"}


def fnum(x):
    try:
        return repr(float(str(x).strip()))
    except ValueError:
        return "?" + str(x)


def strip_time(text):
    return "\n".join(l for l in text.splitlines() if not l.startswith("Generated on"))


# ------------------------------------------------------------------ C++ reader
def read_cpp(text):
    body = text[text.index("// Intro"):] if "// Intro" in text else text
    model = {"event": [], "consts": [], "resvars": [], "pars": [], "amps": [], "amp_titles": [], "arrays": []}
    m = re.search(r"// Event type: (\S+) ->\s+(.*)", body)
    if m:
        model["event"] = [m.group(1)] + re.findall(r"(\S+) \(\d+\)", m.group(2))
    events = []
    declared = set()
    lines = body.splitlines()
    i = 0
    cand = re.compile(r"[A-Za-z_]\w*")
    while i < len(lines):
        ln = lines[i]
        m = re.match(r"\s*constexpr fptype (\w+)\s*\{ (\S+)\s*\};", ln)
        if m:
            model["consts"].append([m.group(1), fnum(m.group(2))])
            events.append({"k": "decl", "sym": m.group(1)})
            declared.add(m.group(1))
            i += 1
            continue
        m = re.match(r'\s*Variable (\w+_[MW])\s*\{ "(\w+)"\s*, (\S+)\s*\};', ln)
        if m:
            model["resvars"].append([m.group(1), fnum(m.group(3))])
            events.append({"k": "decl", "sym": m.group(1)})
            declared.add(m.group(1))
            i += 1
            continue
        m = re.match(r'\s*Variable (\w+) \{"([^"]+)", ([^ ,}]+)(?:, ([^ }]+))? \};', ln)
        if m:
            model["pars"].append([m.group(1), m.group(2), fnum(m.group(3)), fnum(m.group(4)) if m.group(4) else "fixed"])
            events.append({"k": "decl", "sym": m.group(1)})
            declared.add(m.group(1))
            i += 1
            continue
        m = re.match(r"\s*std::vector<Variable>\s+(\w+) \{\{", ln)
        if m:
            j = i + 1
            items = []
            while j < len(lines) and "}};" not in lines[j]:
                for s in cand.findall(lines[j]):
                    events.append({"k": "use", "sym": s})
                    items.append(s)
                j += 1
            model["arrays"].append([m.group(1), items])
            events.append({"k": "decl", "sym": m.group(1)})
            declared.add(m.group(1))
            i = j + 1
            continue
        if "DK3P_DI.particle_masses" in ln:
            for s in cand.findall(ln.split("=", 1)[1]):
                events.append({"k": "use", "sym": s})
        elif "new Lineshapes::" in ln or "_SplineArr" in re.sub(r'"[^"]*"', "", ln) or (
                events and lines[i - 1].rstrip().endswith(",") and "Lineshapes" not in ln and "SpinFactor" not in ln
                and "mkvar" not in ln and "factor_list" not in ln and '"' not in ln):
            # (the spline array of a GSpline lineshape stands on its continuation line, next to Lineshapes::spline_t)
            for s in cand.findall(re.sub(r'"[^"]*"', "", ln)):
                if s.endswith(("_M", "_W", "_SplineArr")) or s in KM_SYMS:
                    events.append({"k": "use", "sym": s})
        i += 1
    # array members by the name their Variable carries (the identifiers are language-specific spellings of it)
    raw = {p_[0]: p_[1] for p_ in model["pars"]}
    model["arrays"] = [[n_, [raw.get(x, x) for x in items_]] for n_, items_ in model["arrays"]]
    blocks = re.split(r"\n\s*// Line \d+\n", body)[1:]
    for b in blocks:
        m = re.search(r'new Amplitude\{\s*"(.*)",\s*mkvar\("(.*)", (true|false), ([^,]+), ([^)]+)\),\s*mkvar\("(.*)", (true|false), ([^,]+), ([^)]+)\),', b)
        sfs, lss, n = goofitio.read_amplitude(b, "cpp")
        splines = [[r_, fnum(a_), fnum(b_), int(n_)] for r_, a_, b_, n_ in
                   re.findall(r'Lineshapes::GSpline\("([^"]+)".*?spline_t\(([^,]+),([^,]+),\s*(\d+)\)', b, re.S)]
        if not m:
            model["amps"].append(dict(BLANK_AMP, title="?unreadable"))
            continue
        model["amp_titles"].append(m.group(1))
        model["amps"].append({"title": m.group(1), "re_name": m.group(2), "im_name": m.group(6),
                              "re": fnum(m.group(4)), "im": fnum(m.group(8)), "fixed": m.group(3) == "true",
                              "fixed_im": m.group(7) == "true", "sfs": sfs, "lss": lss, "n": n, "splines": splines})
    return model, events


# ------------------------------------------------------------------ Python reader (through execution)
BLANK_AMP = {"title": "?", "re_name": "?", "im_name": "??", "re": "?", "im": "?", "fixed": False, "fixed_im": False,
             "sfs": [], "lss": [], "n": -1, "splines": []}


def read_py(text, exempt=()):
    ns, err = fakegoofit.execute(text, predefined=exempt)
    model = {"event": [], "consts": [], "resvars": [], "pars": [], "amps": [], "amp_titles": [], "arrays": []}
    m = re.search(r"#Event type: (\S+) ->\s+(.*)", text)
    if m:
        model["event"] = [m.group(1)] + re.findall(r"(\S+) \(\d+\)", m.group(2))
    for k, v in ns.items():
        if isinstance(v, float) or (isinstance(v, int) and not isinstance(v, bool)):
            if k.isupper() or k.upper() == k:
                model["consts"].append([k, fnum(v)])
        elif isinstance(v, fakegoofit.Call) and v.path == "Variable":
            if k.endswith(("_M", "_W")) and len(v.args) == 2 and v.args[0] == k:
                model["resvars"].append([k, fnum(v.args[1])])
            else:
                model["pars"].append([k, v.args[0], fnum(v.args[1]), fnum(v.args[2]) if len(v.args) > 2 else "fixed"])
    # parameter arrays handed to the lineshapes (f_scatt, IS_poles, spline arrays): name and members in order
    model["arrays"] = []
    for k in list(dict.keys(ns)):
        v = dict.get(ns, k)
        if isinstance(v, list) and k not in ("amplitudes_list", "line_factor_list", "spin_factor_list") and v \
                and all(isinstance(x, fakegoofit.Call) and x.path == "Variable" for x in v):
            model["arrays"].append([k, [x.args[0] for x in v]])
    amps = ns.get("amplitudes_list", []) if isinstance(dict.get(ns, "amplitudes_list"), list) else []
    for a in amps:
        try:
            title, re_, im_, lf, sf, n = a.args
            lf = lf if isinstance(lf, (tuple, list)) else [lf]
            sf = sf if isinstance(sf, (tuple, list)) else [sf]
            sfs = [{"name": s.args[1]._path.split(".")[-1], "idx": [int(x) + 1 for x in s.args[2:6]]} for s in sf]
            lss, splines = [], []
            for l in lf:
                mi = next(i for i, x in enumerate(l.args) if isinstance(x, fakegoofit.Sym) and x._path.startswith("M_"))
                lss.append({"kind": l.path.split(".")[-1], "res": l.args[0], "L": int(l.args[mi - 1]), "mass": l.args[mi]._path})
                if l.path.split(".")[-1] == "GSpline" and isinstance(l.args[-1], (tuple, list)) and len(l.args[-1]) == 3:
                    a_, b_, n_ = l.args[-1]
                    splines.append([l.args[0], fnum(a_), fnum(b_), int(n_)])
            model["amp_titles"].append(title)
            model["amps"].append({"title": title, "re_name": re_.args[0], "im_name": im_.args[0], "re": fnum(re_.args[1]),
                                  "im": fnum(im_.args[1]), "fixed": len(re_.args) == 2, "fixed_im": len(im_.args) == 2,
                                  "sfs": sfs, "lss": lss, "n": int(n), "splines": splines})
        except Exception as e:  # noqa: BLE001
            model["amps"].append(dict(BLANK_AMP, title="?unreadable " + repr(e)[:80]))
    return model, ns.events, err


# ------------------------------------------------------------------ one file
def convert(fn, path):
    """-> (returned text, text printed when not returning, text printed while returning, error)"""
    try:
        buf1 = io.StringIO()
        with redirect_stdout(buf1):
            ret = fn(path, ret_output=True)
        buf2 = io.StringIO()
        with redirect_stdout(buf2):
            r2 = fn(path, ret_output=False)
        return ret if isinstance(ret, str) else "", buf2.getvalue(), buf1.getvalue(), "-" if r2 is None else "returned something although printing"
    except Exception as e:  # noqa: BLE001
        return "", "", "", type(e).__name__ + ": " + str(e)[:200]


def build_with_sibling(args):
    """the file, and - in the same process right after it - a sibling that differs only in its spline binning and its
    parameter values: what one conversion leaves behind must not show in the next"""
    cid, path, text, exempt, cli, tmpdir = args
    out = [build(args)]
    if text and "::Spline::Min" in text:
        swap = {"0.18412": "0.25", "0.25": "0.6", "0.6": "0.18412"}
        sib = re.sub(r"(::Spline::Min\s+)(\S+)", lambda m: m.group(1) + swap.get(m.group(2), "0.3"), text)
        sib = re.sub(r"(::Spline::Max\s+)(\S+)", lambda m: m.group(1) + {"1.9": "2.5", "2.5": "3.0", "3.0": "1.9"}.get(m.group(2), "2.2"), sib)
        out.append(build((f"{cid}s", None, sib, exempt, False, tmpdir)))
    return out


def build(args):
    cid, path, text, exempt, cli, tmpdir = args
    from decaylanguage.modeling.ampgen2goofit import ampgen2goofit, ampgen2goofitpy
    from decaylanguage.modeling.goofit import GooFitChain
    from decaylanguage.modeling.amplitudechain import AmplitudeChain
    ampio.fast_lookup()
    AmplitudeChain.cartesian = False
    if path is None:
        path = str(Path(tmpdir) / f"case{cid}.txt")
        Path(path).write_text(text)
    obs = {}
    titles = []
    try:
        lines, _ = GooFitChain.read_ampgen(path)
        titles = [str(l) for l in lines]
    except Exception as e:  # noqa: BLE001
        titles = ["?read failed " + repr(e)[:100]]
    raw = {}
    for lang, fn in (("cpp", ampgen2goofit), ("py", ampgen2goofitpy)):
        ret, printed, leaked, err = convert(fn, path)
        raw[lang] = ret
        o = {"raised": err, "returned_is_printed": strip_time(ret) == strip_time(printed) and leaked == "",
             "events": [], "model": {"event": [], "consts": [], "resvars": [], "pars": [], "amps": [], "amp_titles": [], "arrays": []},
             "exec_error": "-"}
        if err == "-":
            # judge the complete text (what a user gets on stdout)
            full = printed
            try:
                if lang == "cpp":
                    o["model"], o["events"] = read_cpp(full)
                else:
                    o["model"], o["events"], o["exec_error"] = read_py(full, exempt)
            except Exception as e:  # noqa: BLE001
                raise Machinery(f"reader of generated {lang} failed: {e!r}") from e
        obs[lang] = o
    obs["cli_same"] = True
    if cli:
        env = dict(os.environ, PYTHONPATH=str(REPO / "src"), PYTHONHASHSEED=os.environ.get("PYTHONHASHSEED", "0"))
        for lang, gen in (("cpp", "goofit"), ("py", "goofitpy")):
            r = subprocess.run([sys.executable, "-m", "decaylanguage", "-G", gen, path], capture_output=True, text=True, env=env,
                               timeout=900)
            a = sorted(strip_time(r.stdout).splitlines())
            buf = io.StringIO()
            b = sorted(strip_time(_printed(lang, path)).splitlines())
            if r.returncode != 0 or a != b:
                obs["cli_same"] = False
                obs["cli_detail"] = (r.stderr or "")[-300:]
    # the parameter lines of the input, read by the harness itself: name flag value error
    input_pars = []
    for ln in Path(path).read_text().splitlines():
        parts = ln.split("#")[0].split()
        if len(parts) == 4 and not ln.startswith(("EventType", "FastCoherentSum")) and "{" not in parts[0]:
            try:
                flag, v, e = int(parts[1]), float(parts[2]), float(parts[3])
            except ValueError:
                continue
            input_pars.append([parts[0], fnum(v), "fixed" if flag > 0 else fnum(e)])
    # the spline binning the input file states per resonance: [min, max, n]
    sp = {}
    for ln in Path(path).read_text().splitlines():
        mm = re.match(r"\s*(\S+)::Spline::(Min|Max|N)\s+(\S+)", ln.split("#")[0])
        if mm:
            sp.setdefault(mm.group(1), {})[mm.group(2)] = mm.group(3)
    input_splines = [[fnum(v["Min"]), fnum(v["Max"]), int(float(v["N"]))] for v in sp.values() if {"Min", "Max", "N"} <= set(v)]
    return {"prop": "C19", "cid": cid, "file": Path(path).name if text is None else "generated", "text": text, "exempt": exempt,
            "input_pars": input_pars, "input_splines": input_splines,
            "titles": titles, "obs": obs, "raw_py": raw.get("py", "")[:0]}


def _printed(lang, path):
    from decaylanguage.modeling.ampgen2goofit import ampgen2goofit, ampgen2goofitpy
    buf = io.StringIO()
    with redirect_stdout(buf):
        (ampgen2goofit if lang == "cpp" else ampgen2goofitpy)(path)
    return buf.getvalue()


def gen_file(rng):
    ev = rng.choice(goofitio.EVENTS)
    lines = []
    for _ in range(rng.randint(1, 5)):
        try:
            t = goofitio.gen_line(rng, ev, allow_unsupported=False)
        except RuntimeError:
            continue
        if goofitio.render_tree(t) not in [goofitio.render_tree(x) for x in lines]:
            lines.append(t)
    if not lines:
        return None
    body = []
    for t in lines:
        f1, f2 = rng.choice([(0, 0), (2, 2), (0, 2), (2, 0)])
        body.append(f"{goofitio.render_tree(t)}   {f1} {rng.choice(ampio.NUM_SPELL)} 0.01   {f2} {rng.choice(ampio.NUM_SPELL)} 0.02")
    sup = goofitio.support_lines(lines, rng)
    extra = [f"D0_radius   2   0.0037559   0", f"myPar::x{rng.randint(0, 9)}   0   1.5   0.1",
             f"K*(892)bar0_mass   0   895.5512{rng.randint(1, 9)}   0.2000001", f"rho(770)0_mass   2   775.26004{rng.randint(1, 9)}   0",
             f"phi(1020)0_width   0   4.2490000{rng.randint(1, 9)}e-3   1.30000007e-5"]
    rng.shuffle(extra)
    extra = extra[: rng.randint(1, 5)]
    rows = body + sup + extra
    return "EventType " + " ".join(ev) + "\n" + "\n".join(rows) + "\n"


def run(tier, seed, replay_path=None):
    ensure_repo_on_path()
    o = Outcome(PROP, tier, seed)
    rng = random.Random(seed)
    deep = tier == "thorough"
    wd = tlc.new_workdir("c19")
    tmp = tempfile.mkdtemp(prefix="c19-", dir=wd)
    try:
        shipped = str(REPO / "models" / "DtoKpipipi_v2.txt")
        # the shipped model does not define sA0: the K-matrix symbol sA_0 has no declaration *for that input*
        args = [(0, shipped, None, ["sA_0"], True, tmp)]
        n = 400 if deep else 28
        while len(args) < n + 1:
            t = gen_file(rng)
            if t:
                args.append((len(args), None, t, [], len(args) <= (6 if deep else 1), tmp))
        if replay_path:
            rc = json.load(open(replay_path))["case"]
            if rc.get("text"):
                args = [(0, None, rc["text"], [], False, tmp)]
        cases = [c for group in pmap(build_with_sibling, args, chunk=1, limit=1500) for c in group]
        rej = judge_emit(cases, wd, o, "judge both generated programs: declared-before-use, model equality, returned = printed (AmpEmit)")
        for c in cases:
            o.traces += 1
            o.evaluations += 2
            o.nontrivial.add(json.dumps([c["file"], c["text"]]))
        for i, fl in rej.items():
            c = cases[i]
            o.violate(fl[0]["clause"], {"file": c["file"], "text": c["text"]},
                      {"clauses": [f["clause"] for f in fl][:8], "diag": fl[0].get("diag"),
                       "cpp_raised": c["obs"]["cpp"]["raised"], "py_raised": c["obs"]["py"]["raised"],
                       "py_exec": c["obs"]["py"]["exec_error"]})
        o.notes["files"] = len(cases)
        o.notes["shipped_model"] = {"amplitudes_cpp": len(cases[0]["obs"]["cpp"]["model"]["amps"]),
                                    "py_constructor_events": len(cases[0]["obs"]["py"]["events"]),
                                    "precondition_not_met": "sA0 is not defined in models/DtoKpipipi_v2.txt: sA_0 exempt for that input"}
        o.notes["amplitudes_total"] = sum(len(c["obs"]["cpp"]["model"]["amps"]) for c in cases)
        o.notes["cli_runs"] = sum(1 for a in args if a[4])
        good = next((copy.deepcopy(c) for i, c in enumerate(cases) if i not in rej and c["obs"]["py"]["events"]), None)
        if good is not None:
            ev = good["obs"]["py"]["events"]
            k = next((j for j, e in enumerate(ev) if e["k"] == "decl" and any(x["k"] == "use" and x["sym"] == e["sym"] for x in ev[j:])), None)
            if k is not None:
                del ev[k]
                if not judge_emit([good], wd, Outcome(PROP, tier, seed), "selftest"):
                    raise Machinery("binding self test: removed declaration accepted")
                o.notes["binding_selftest"] = "rejected"
        elif not rej:
            raise Machinery("binding self test: nothing to corrupt")
        for c in cases[1:3]:
            o.sample({"text": c["text"], "cpp_amplitudes": c["obs"]["cpp"]["model"]["amp_titles"]})
        o.rule = ("AmpGen files: the shipped model and generated four-body files (1..5 amplitudes over the supported spin "
                  "structures, all lineshape kinds with their spline / K-matrix parameter families, fixed and free couplings, fit "
                  "parameters); each converted to C++ and Python by function call with and without ret_output (and through the "
                  "command line for a subset); the Python text is executed against a recording goofit stand-in, the C++ text "
                  "is scanned; distinct = distinct files")
        o.assumptions = ["the C++ text is read with regular expressions (harness/c19.py), the Python text by executing it",
                         "use-before-declare is applied to K-matrix / spline symbols only when the input defines their parameters"]
    finally:
        tlc.cleanup(wd)
    return finish(o)
