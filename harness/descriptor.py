"""Pattern-parametrised reader of decay descriptors ("matching its brackets").

A descriptor is read back with a small backtracking parser that knows only the
two patterns in force and the label alphabet.  It returns *all* parses; the
callers demand exactly one (the string determines the tree) and compare it,
as an unordered tree, with what the specification says was rendered.

tree := (mother, [child, ...]);  child := name | tree
"""
from __future__ import annotations

import string
from functools import lru_cache

ALPHABET = set(string.ascii_letters + string.digits + "/-+*_().'~")


def split_pattern(pat: str):
    """-> [lit0, field1, lit1, field2, lit2] for a valid two-placeholder pattern."""
    parts = list(string.Formatter().parse(pat))
    lits, fields, cur = [], [], ""
    for lit, fld, spec, conv in parts:
        cur += lit                      # escaped braces ({{ and }}) arrive as literal chunks of their own
        if fld is not None:
            lits.append(cur)
            cur = ""
            fields.append(fld)
    lits.append(cur)
    if len(fields) != 2 or set(fields) != {"mother", "daughters"}:
        raise ValueError(f"not a two-placeholder pattern: {pat!r}")
    while len(lits) < 3:
        lits.append("")
    return [lits[0], fields[0], lits[1], fields[1], lits[2]]


def _balanced(tok: str) -> bool:
    d = 0
    for ch in tok:
        if ch == "(":
            d += 1
        elif ch == ")":
            d -= 1
            if d < 0:
                return False
    return d == 0


def _names_at(s: str, i: int):
    j = i
    while j < len(s) and s[j] in ALPHABET:
        j += 1
        if _balanced(s[i:j]):
            yield j


def parse_all(s: str, top: str, sub: str, limit: int = 4):
    """All trees whose rendering under (top, sub) is `s` (at most `limit`)."""
    tp, sp = split_pattern(top), split_pattern(sub)
    out = []

    def decay(i, pat, k):
        """parse one instance of `pat` at i; call k(tree, j) for each parse."""
        l0, f1, l1, f2, l2 = pat
        if not s.startswith(l0, i):
            return
        i1 = i + len(l0)

        def field(name, i, kk):
            if name == "mother":
                for j in _names_at(s, i):
                    kk(s[i:j], j)
            else:
                daughters(i, [], kk)

        def after1(v1, j1):
            if not s.startswith(l1, j1):
                return
            def after2(v2, j2):
                if not s.startswith(l2, j2):
                    return
                m, ds = (v1, v2) if f1 == "mother" else (v2, v1)
                k((m, tuple(ds)), j2 + len(l2))
            field(f2, j1 + len(l1), after2)
        field(f1, i1, after1)

    def daughters(i, acc, kk):
        # item (" " item)*  - also the empty list (a decay with no daughters)
        if not acc:
            kk([], i)
        def got(item, j):
            acc2 = acc + [item]
            kk(acc2, j)
            if j < len(s) and s[j] == " ":
                daughters_more(j + 1, acc2, kk)
        for j in _names_at(s, i):
            got(s[i:j], j)
        decay(i, sp, got)

    def daughters_more(i, acc, kk):
        def got(item, j):
            acc2 = acc + [item]
            kk(acc2, j)
            if j < len(s) and s[j] == " ":
                daughters_more(j + 1, acc2, kk)
        for j in _names_at(s, i):
            got(s[i:j], j)
        decay(i, sp, got)

    def done(tree, j):
        if j == len(s) and len(out) < limit and tree not in out:
            out.append(tree)

    decay(0, tp, done)
    return out


def canon(tree):
    """Order-insensitive canonical form of a tree (nested sorted tuples)."""
    if isinstance(tree, str):
        return tree
    m, ds = tree
    return (m, tuple(sorted((canon(d) for d in ds), key=repr)))


def render(tree, top: str, sub: str, is_top: bool = True) -> str:
    """Reference rendering (children in the given order) - used for self tests."""
    if isinstance(tree, str):
        return tree
    m, ds = tree
    body = " ".join(render(d, top, sub, False) for d in ds)
    return (top if is_top else sub).format(mother=m, daughters=body)
