"""C17 - AmpGen option files are read into the amplitudes and tables they state."""
from __future__ import annotations

import copy
import json
import random

from . import tlc, ampio
from .core import Outcome, ensure_repo_on_path, finish, pmap, Machinery, chunked

PROP = "C17"
PAR_NAMES = ["D0_radius", "IS_p1_4pi", "IS_p2_KK", "f_scatt0", "s0_prod", "K(1)(1270)bar-::Spline::Gamma::3", "myPar_1", "a(1)(1260)+_mass"]
CONST_NAMES = ["a(1)(1260)+::Spline::Min", "a(1)(1260)+::Spline::N", "K(1460)bar-::Spline::Max", "someConst", "D0::x"]
EXTRAS = ['Output "out.root"', "nEvents 1000", "K*(892)bar0 = K*(892)0", "D0{K-,pi+} 0 1.0 0.1"]


def build(args):
    cid, f, seed, reader = args
    rng = random.Random(seed)
    cz = ampio.AmpCZ(rng)
    cz.bind_default()
    text = ampio.render_file(cz, f, rng)
    from decaylanguage.modeling.amplitudechain import AmplitudeChain
    from decaylanguage.modeling.goofit import GooFitChain, GooFitPyChain
    ampio.fast_lookup()
    obs = {"raised": "-", "event": [], "amps": [], "vars": [], "consts": []}
    # every read starts from the documented default of the class-wide switch (histories are C20's subject)
    AmplitudeChain.cartesian = False
    for cls in (GooFitChain, GooFitPyChain):
        if "cartesian" in cls.__dict__:
            delattr(cls, "cartesian")
    # the text arrives as `text=`, or as a file named by keyword (str) or by position (pathlib.Path)
    import tempfile
    from pathlib import Path
    from .tlc import WORK
    form = cid % 4 if isinstance(cid, int) else 0
    tmpd = None
    if form >= 2:
        WORK.mkdir(exist_ok=True)
        tmpd = tempfile.TemporaryDirectory(prefix="c17f-", dir=str(WORK))
        fp = Path(tmpd.name) / "options.txt"
        fp.write_text(text, encoding="utf_8")
        how = (lambda c: c.read_ampgen(filename=str(fp))) if form == 2 else (lambda c: c.read_ampgen(fp))
    else:
        how = lambda c: c.read_ampgen(text=text)       # noqa: E731
    try:
        if reader == "base":
            lines, pars, consts, states = how(AmplitudeChain)
        else:
            cls = GooFitChain if reader == "cpp" else GooFitPyChain
            lines, states = how(cls)
            pars, consts = cls.pars, cls.consts
        ids = {v: k for k, v in {**ampio.FINALS, **{n: i for n, (i, _, _) in ampio.RES.items()}}.items()}
        obs["event"] = [cz.rname(ids.get(int(p.pdgid), "?")) for p in states]
        by_tree = {}
        for ln in f["lines"]:
            by_tree.setdefault(json.dumps(ln["tree"], sort_keys=True), ln)
        for ln in lines:
            tree = ampio.proj_tree(cz, ln)
            # the two numeric columns of the mother line this amplitude stems from
            src = None
            for cand in f["lines"]:
                if cand["tree"]["name"] == f["event"][0] and _covers(cand["tree"], tree):
                    a, b = ampio.val(cz.v(cand["c1"]["v"])), ampio.val(cz.v(cand["c2"]["v"]))
                    fits = ampio.coupling_fits(complex(ln.amp), a, b)
                    if src is None or "nothing" not in fits:
                        src = fits
            obs["amps"].append({"tree": tree, "fits": src or ["no-source-line"], "fix": bool(ln.fix)})
        for name, row in pars.iterrows():
            obs["vars"].append({"name": name, "fixed": bool(row["fix"]), "v": cz.rv(float(row["value"])), "e": cz.rv(float(row["error"]))})
        for name, row in consts.iterrows():
            obs["consts"].append({"name": name, "v": cz.rv(float(row["value"]))})
    except Exception as e:  # noqa: BLE001
        obs["raised"] = repr(e)[:300]
    finally:
        AmplitudeChain.cartesian = False
        if tmpd is not None:
            tmpd.cleanup()
    return {"prop": PROP, "cid": cid, "file": {k: v for k, v in f.items() if k != "extra"}, "obs": obs, "text": text, "reader": reader}


def _covers(pattern, tree):
    """tree (abstract, projected) is an expansion of the written `pattern` (leaves may have been replaced)"""
    if pattern["name"] != tree["name"]:
        return False
    if not pattern["kids"]:
        return True
    if pattern["sf"] != tree["sf"] or pattern["ls"] != tree["ls"] or len(tree["kids"]) != len(pattern["kids"]):
        return False
    return all(_covers(p, t) for p, t in zip(pattern["kids"], tree["kids"]))


def T(n, sf="-", ls="-", kids=()):
    return {"name": n, "sf": sf, "ls": ls, "kids": list(kids)}


def gen_random(rng, big):
    """event type with a repeated particle, full and partial lines nested to depth 3, 0..3 alternatives per resonance"""
    def C():
        return {"fix": rng.choice([0, 2, 2, 1]), "v": f"v{rng.randint(0, 9)}", "e": f"v{rng.randint(0, 9)}"}
    lines = []
    tags = lambda: (rng.choice(["-", "-", "S", "P", "D"]), rng.choice(["-", "-", "ls1", "ls2", "ls3"]))  # noqa: E731
    r1 = lambda full: T("R1", *tags(), kids=[T("a"), T("b")]) if full else T("R1")  # noqa: E731
    r2 = lambda full: T("R2", *tags(), kids=[T("b"), T("c")]) if full else T("R2")  # noqa: E731

    def r3(full):
        if not full:
            return T("R3")
        return T("R3", *tags(), kids=rng.choice([[r1(rng.random() < 0.5), T("c")], [r2(rng.random() < 0.5), T("a")]]))
    for _ in range(rng.randint(1, 6 if big else 3)):
        kind = rng.random()
        if kind < 0.5:
            tree = T("M", *tags(), kids=[r1(rng.random() < 0.5), r2(rng.random() < 0.5)])
        else:
            tree = T("M", *tags(), kids=[r3(rng.random() < 0.5), T("b")])
        lines.append({"tree": tree, "c1": C(), "c2": C()})
    for r, mk in (("R1", r1), ("R2", r2), ("R3", r3)):
        for _ in range(rng.randint(0, 3)):
            lines.append({"tree": mk(True), "c1": C(), "c2": C()})
    # now and then a daughter written without its own decay under *another spelling* of a resonance of the file
    # (R1t / R2t / R3t: rho0 next to rho(770)0): decay lines are given for a name, so this one stays a leaf
    if rng.random() < 0.3:
        tw = rng.choice(["R1t", "R2t", "R3t"])
        tree = (T("M", *tags(), kids=[T("R1t"), r2(rng.random() < 0.5)]) if tw == "R1t" else
                T("M", *tags(), kids=[r1(rng.random() < 0.5), T("R2t")]) if tw == "R2t" else
                T("M", *tags(), kids=[T("R3t"), T("b")]))
        lines.append({"tree": tree, "c1": C(), "c2": C()})
    rng.shuffle(lines)
    vars_ = [{"name": n, "fix": rng.choice([0, 2]), "v": f"v{rng.randint(0, 9)}", "e": f"v{rng.randint(0, 9)}"}
             for n in rng.sample(PAR_NAMES, rng.randint(0, 4))]
    consts = [{"name": n, "v": f"v{rng.randint(0, 9)}"} for n in rng.sample(CONST_NAMES, rng.randint(0, 3))]
    # a name stated on more than one line (a default followed by an override): still one row per line
    if vars_ and rng.random() < 0.4:
        vars_.insert(rng.randint(0, len(vars_)), dict(rng.choice(vars_), v=f"v{rng.randint(0, 9)}"))
    if consts and rng.random() < 0.4:
        consts.insert(rng.randint(0, len(consts)), dict(rng.choice(consts), v=f"v{rng.randint(0, 9)}"))
    return {"event": ["M", "a", "b", "b", "c"], "lines": lines, "vars": vars_, "consts": consts,
            "cart": rng.choice(["absent", "absent", "0", "1"]), "extra": rng.sample(EXTRAS, rng.randint(0, 2))}


@chunked()
def judge(cases, wd, o, what, module="AmpGen", consts=None):
    tf = wd / f"trace_{len(list(wd.glob('trace_*.json')))}.json"
    tf.write_text(json.dumps([{k: v for k, v in c.items() if k not in ("cid", "text", "reader", "names")} for c in cases]))
    cfg = tlc.cfg_text(constants=consts or dict(Mode="trace", MaxLines=0))
    r = tlc.run(module, cfg, workdir=wd, env={"TRACE_FILE": str(tf)}, timeout=3000)
    o.add_tlc(r, what)
    acc = {x["tid"] for x in r.by_tag("ACCEPT")}
    rej = {x["tid"] for x in r.by_tag("REJECT")}
    if acc | rej != set(range(1, len(cases) + 1)) or acc & rej:
        raise Machinery(f"trace verdicts not total: {len(acc)}+{len(rej)} of {len(cases)} ({r.stdout_path})")
    fails = {}
    for x in r.by_tag("FAIL"):
        fails.setdefault(x["tid"] - 1, []).append(x)
    out = {}
    for t in rej:
        fl = fails[t - 1]
        mach = [f for f in fl if f["clause"].startswith("MACHINERY")]
        if mach:
            raise Machinery(f"harness self-check failed: {mach[0]} on {json.dumps(cases[t - 1])[:800]}")
        out[t - 1] = fl
    return out


def run(tier, seed, replay_path=None):
    ensure_repo_on_path()
    o = Outcome(PROP, tier, seed)
    rng = random.Random(seed)
    deep = tier == "thorough"
    wd = tlc.new_workdir("c17")
    try:
        ml = 4 if deep else 3
        r = tlc.run("AmpGen", tlc.cfg_text(constants=dict(Mode="gen", MaxLines=ml),
                                           invariants=["CountIsSumOfProducts", "AmplitudesAreComplete"]), workdir=wd)
        o.add_tlc(r, f"AmpGen gen: every ordered choice of <= {ml} lines from the pool x option absent/0/1; count = sum of products")
        if r.violated:
            o.violate("spec-invariant", {"violated": r.violated}, r.stdout_path)
        gen = [x["v"]["file"] for x in r.by_tag("case")]
        rr = tlc.run("AmpGen", tlc.cfg_text(constants=dict(Mode="gen", MaxLines=4), invariants=["NoProducts"]), workdir=wd,
                     keep_records=False)
        o.add_tlc(rr, "reachability companion NoProducts", expect_violation=True)
        if "NoProducts" not in rr.violated:
            raise Machinery("NoProducts not violated")
        o.notes["universe_files"] = len(gen)
        if replay_path:
            gen = [json.load(open(replay_path))["case"]["file"]]
        else:
            nwin = 6240 if deep else 700
            if len(gen) > nwin:
                k = len(gen)
                off, step = seed % k, k // nwin
                gen = [gen[(off + i * step) % k] for i in range(nwin)]
            else:
                o.exhaustive = True
            gen += [gen_random(rng, i % 2 == 0) for i in range(5000 if deep else 500)]
        readers = ["base", "cpp", "py"]
        cases = pmap(build, [(i, f, seed * 37 + i, readers[i % 3]) for i, f in enumerate(gen)])
        rej = judge(cases, wd, o, "judge read_ampgen results (AmpGen trace mode)")
        for c in cases:
            o.traces += 1
            o.evaluations += 1
            o.nontrivial.add(json.dumps(c["file"], sort_keys=True))
        for i, fl in rej.items():
            c = cases[i]
            o.violate(fl[0]["clause"], {"file": c["file"], "reader": c["reader"]},
                      {"clauses": [f["clause"] for f in fl][:6], "diag": fl[0].get("diag"), "text": c["text"]})
        o.notes["max_amplitudes"] = max((len(c["obs"]["amps"]) for c in cases), default=0)
        o.notes["with_cartesian_option"] = sum(1 for c in cases if c["file"]["cart"] != "absent")
        good = next((copy.deepcopy(c) for i, c in enumerate(cases) if i not in rej and len(c["obs"]["amps"]) >= 1), None)
        if good is not None:
            good["obs"]["amps"][0]["tree"]["name"] = "zz"
            if not judge([good], wd, Outcome(PROP, tier, seed), "selftest"):
                raise Machinery("binding self test: corrupted amplitude tree accepted")
            o.notes["binding_selftest"] = "rejected"
        elif not rej:
            raise Machinery("binding self test: nothing to corrupt")
        for c in cases[-2:]:
            o.sample({"text": c["text"], "amplitudes": [a["tree"] for a in c["obs"]["amps"]][:3]})
        o.rule = ("abstract option files: every ordered choice of lines from the AmpGen.tla pool x option absent/0/1 (quick: a "
                  "window) and random files (1..6 full/partial mother lines nested to depth 3, 0..3 alternatives per resonance, "
                  "tags, parameter / constant lines, other option and ignored line kinds, comments and blank lines), read by "
                  "the three reader classes; distinct = distinct abstract files")
        o.assumptions = ["names resolve to the particles listed in harness/ampio.py (fixed PDG ids)",
                         "the coupling is judged by which of polar / cartesian reading fits the observed complex number at 1e-12"]
    finally:
        tlc.cleanup(wd)
    return finish(o)
