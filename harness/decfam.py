"""Engine shared by the DecParse family (C01, C03, C05, ...):

  abstract files  <- TLC (spec/DecGen.tla: exhaustive small universes, simulation)
                  <- seeded random generators (larger files)
  real code       <- rendered text parsed by the real DecFileParser, answers projected
  judge           <- TLC (spec/DecTrace.tla) validates every observation
"""
from __future__ import annotations

import json
import os
import random
from pathlib import Path

from . import tlc
from .core import Machinery, Outcome, ensure_repo_on_path, pmap, chunked
from . import decio
from .pdgdata import tables as pdg_tables

# ------------------------------------------------------------------ case sources

def tlc_files(profile: str, maxstmts: int, maxlines: int, wd: Path, o: Outcome, *, check=True,
              simulate: int | None = None, depth: int = 8, seed: int = 0, what: str = ""):
    """Abstract files of the DecGen universe `profile` (with the spec-level invariants
    checked on the way when `check`)."""
    invs = ["MachineIsParsed", "C01_FirstBlocks", "C01_Lines", "C05_Expansion", "C03_Exact", "C08_Copy",
            "ConjInvolution"] if check else []
    props = ["SourcesUntouched", "InclOff"] if check else []
    cfg = tlc.cfg_text(constants=dict(Profile=profile, MaxStmts=maxstmts, MaxLines=maxlines, DoEmit=True, Build=bool(simulate)),
                       invariants=invs, properties=props)
    r = tlc.run("DecGen", cfg, workdir=wd, simulate=f"num={simulate}" if simulate else None,
                depth=(maxstmts + 9) if simulate else None, seed=seed if simulate else None,
                workers=1 if simulate else "auto")
    o.add_tlc(r, what or f"DecGen {profile} stmts<={maxstmts} lines<={maxlines}" + (" (simulation)" if simulate else ""))
    if r.violated:
        o.violate("spec-invariant", {"profile": profile, "violated": r.violated}, r.stdout_path)
    return [x["v"] for x in r.by_tag("case")]


def reachability(profile: str, inv: str, wd: Path, o: Outcome):
    cfg = tlc.cfg_text(constants=dict(Profile=profile, MaxStmts=3, MaxLines=1, DoEmit=False, Build=False), invariants=[inv])
    r = tlc.run("DecGen", cfg, workdir=wd, keep_records=False)
    o.add_tlc(r, f"reachability companion {inv} ({profile})", expect_violation=True)
    if inv not in r.violated:
        raise Machinery(f"reachability companion {inv} not violated in profile {profile}: vacuous")


# ------------------------------------------------------------------ python mirror used only to *render* the expanded text
def expand_defs(src):
    """Textual expansion of Define / ModelAlias uses.  TLC re-checks that this equals
    ExpandDefs(src) of the specification (clause MACHINERY:expansion-...)."""
    def last(kind, name):
        hit = None
        for s in src:
            if s["k"] == kind and s["m"] == name:
                hit = s
        return hit

    def rparam(p):
        if p["t"] == "num":
            return dict(p)
        w = p["v"]
        if len(w) > 1 and w[0] == "-":
            d = last("Define", w[1:])
            if d:
                return {"t": "num", "v": "-" + d["v"]}
            return dict(p)
        d = last("Define", w)
        return {"t": "num", "v": d["v"]} if d else dict(p)

    out = []
    for s in src:
        if s["k"] != "Decay":
            out.append(s)
            continue
        lines = []
        for ln in s["lines"]:
            ln = dict(ln)
            if ln["mk"] == "alias":
                a = last("ModelAlias", ln["mn"])
                if a:
                    ln.update(mk=a["mk"], mn=a["mn"], ps=a["ps"])
            ln["ps"] = [rparam(p) for p in ln["ps"]]
            lines.append(ln)
        out.append({**s, "lines": lines})
    return out


# ------------------------------------------------------------------ building one case against the real code
def _obs_fix(o):
    for t in o["tables"]:
        for ln in t["lines"]:
            ln["ph"] = {True: "T", False: "F", None: "na"}[ln["ph"]]
    return o


def build_case(args):
    prop, cid, src, base, incl, seed, identity = args
    rng = random.Random(seed)
    # every other case draws its spellings from a vocabulary shared with its neighbours (64 consecutive cases): one
    # process then reads many files made of the same words with different meanings (see decio.Concretiser)
    vocab = f"{seed - cid}/{cid // 64}" if isinstance(cid, int) and cid % 2 == 1 and not identity else None
    cz = decio.Concretiser(rng, base=None if identity else base, conj_matters=(prop in ("C03", "C08C") or bool(base)),
                           vocab=vocab)
    if identity:
        cz.names = IdentityMap()
    else:
        cz.related = isinstance(cid, int) and cid % 4 == 2      # one file in four: names that are spellings of each other
    case = {"prop": prop, "cid": cid, "src": src, "base": base, "incl": incl}
    text = decio.render_file(cz, src)
    if prop == "C03":
        on, _ = decio.observe(text, cz, True)
        off, _ = decio.observe(text, cz, False)
        nocd_text = decio.render_file(cz, [s for s in src if s["k"] != "CDecay"])
        nocd, _ = decio.observe(nocd_text, cz, True)
        case.update(on=_obs_fix(on), off=_obs_fix(off), nocd=_obs_fix(nocd))
        # a sibling read in the same process right after, same names: the ChargeConj statements dropped, or their
        # first names replaced by fresh ones - what a name's conjugate is belongs to the file, not to the process
        sibs = []
        if any(st["k"] == "ChargeConj" for st in src) and cid % 2 == 0:
            if cid % 4 == 0:
                ssrc = [st for st in src if st["k"] != "ChargeConj"]
            else:
                ssrc = [dict(st, m="zz" + st["m"]) if st["k"] == "ChargeConj" else st for st in src]
            stext = decio.render_file(cz, ssrc)
            son, _ = decio.observe(stext, cz, True)
            soff, _ = decio.observe(stext, cz, False)
            snocd, _ = decio.observe(decio.render_file(cz, [st for st in ssrc if st["k"] != "CDecay"]), cz, True)
            sibs.append({"prop": prop, "cid": f"{cid}s", "src": ssrc, "base": base, "incl": incl, "on": _obs_fix(son),
                         "off": _obs_fix(soff), "nocd": _obs_fix(snocd), "text": stext})
        case["siblings"] = sibs
    elif prop == "C05":
        xsrc = expand_defs(src)
        xtext = decio.render_file(cz, xsrc)
        obs, _ = decio.observe(text, cz, True)
        obsx, _ = decio.observe(xtext, cz, True)
        case.update(obs=_obs_fix(obs), obsx=_obs_fix(obsx), xsrc=xsrc, xtext=xtext)
        # siblings, read in the same process right after with the same names: every definition given another
        # value, and no definition at all - the decay lines are textually identical, their meaning is not
        sibs = []
        if any(st["k"] == "Define" for st in src):
            swapped = [dict(st, v="sw" + st["v"]) if st["k"] == "Define" else st for st in src]
            bare = [st for st in src if st["k"] != "Define"]
            for j, ssrc in enumerate((swapped, bare)):
                stext = decio.render_file(cz, ssrc)
                sx = expand_defs(ssrc)
                sxtext = decio.render_file(cz, sx)
                so, _ = decio.observe(stext, cz, True)
                sxo, _ = decio.observe(sxtext, cz, True)
                sibs.append({"prop": prop, "cid": f"{cid}s{j}", "src": ssrc, "base": base, "incl": incl, "obs": _obs_fix(so),
                             "obsx": _obs_fix(sxo), "xsrc": sx, "xtext": sxtext, "text": stext})
        case["siblings"] = sibs
    else:
        obs, _ = decio.observe(text, cz, incl)
        case.update(obs=_obs_fix(obs))
    case["text"] = text
    case["maps"] = {k: dict(v) if not isinstance(v, IdentityMap) else "identity" for k, v in cz.maps().items()}
    for sb in case.get("siblings", []):
        sb["maps"] = case["maps"]
    return case


class IdentityMap(dict):
    """names map to themselves (generators that work directly on real names)"""
    def __contains__(self, k):
        return True

    def __getitem__(self, k):
        return k

    def items(self):
        return []

    def values(self):
        return []


def _rname_identity(self, c):
    return c


# the identity map needs a matching reverse map
_orig_rname = decio.Concretiser.rname


def _rname(self, c):
    if isinstance(self.names, IdentityMap):
        return c
    return _orig_rname(self, c)


decio.Concretiser.rname = _rname


# ------------------------------------------------------------------ judging
STRIP = ("text", "xtext", "maps", "cid")


@chunked()
def judge(cases, wd: Path, o: Outcome, what: str, module: str = "DecTrace"):
    """Validate `cases` with TLC; return {index: [fail records]} for rejected cases."""
    if not cases:
        return {}
    tf = wd / f"trace_{len(list(wd.glob('trace_*.json')))}.json"
    tf.write_text(json.dumps([{k: v for k, v in c.items() if k not in STRIP} for c in cases]))
    r = tlc.run(module, tlc.cfg_text(), workdir=wd, env={"TRACE_FILE": str(tf)}, timeout=3000)
    o.add_tlc(r, what)
    acc = {x["tid"] for x in r.by_tag("ACCEPT")}
    rej = {x["tid"] for x in r.by_tag("REJECT")}
    fails: dict[int, list] = {}
    for x in r.by_tag("FAIL"):
        fails.setdefault(x["tid"], []).append(x)
    n = len(cases)
    if acc | rej != set(range(1, n + 1)) or acc & rej:
        raise Machinery(f"trace verdicts not total: {len(acc)} accepted, {len(rej)} rejected of {n} "
                        f"(TLC output {r.stdout_path})")
    if any(t not in fails for t in rej) or any(t in acc for t in fails):
        raise Machinery("REJECT without FAIL clause or FAIL on accepted trace")
    out = {}
    for t in sorted(rej):
        fl = fails[t]
        mach = [f for f in fl if f["clause"].startswith("MACHINERY")]
        if mach:
            raise Machinery(f"harness self-check failed on case {t - 1}: {mach[0]} ; case: "
                            f"{json.dumps(cases[t - 1])[:1500]}")
        out[t - 1] = fl
    return out


def record(o: Outcome, cases, rejected, *, keys=("src", "incl", "base")):
    for i, c in enumerate(cases):
        o.traces += 1
        o.evaluations += 1
        o.nontrivial.add(json.dumps(c["src"], sort_keys=True))
    for i, fl in rejected.items():
        c = cases[i]
        o.violate(fl[0]["clause"], {**{k: c.get(k) for k in keys}, "beh": []},
                  {"clauses": [f["clause"] for f in fl], "diag": fl[0].get("diag"),
                   "text": c.get("text"), "maps": c.get("maps")})


def run_cases(prop, specs, o: Outcome, wd: Path, what: str, seed: int, identity=False, procs=16):
    """specs: list of (src, base, incl).  Build against the real code in parallel, judge with TLC."""
    args = [(prop, i, s, b, inc, seed * 1000003 + i, identity) for i, (s, b, inc) in enumerate(specs)]
    built = pmap(build_case, args, procs=procs)
    cases = []
    for c in built:
        sibs = c.pop("siblings", [])
        cases.append(c)
        cases.extend(sibs)
    rejected = judge(cases, wd, o, what)
    record(o, cases, rejected)
    return cases, rejected


def selftest_binding(prop, cases, wd: Path, o: Outcome, corrupt):
    """Corrupt one recorded field of one accepted trace: the judge must reject it."""
    import copy
    for c in cases:
        m = copy.deepcopy(c)
        if corrupt(m):
            dummy = Outcome(prop, o.tier, o.seed)
            rej = judge([m], wd, dummy, "binding self test")
            o.states += dummy.states
            o.transitions += dummy.transitions
            if not rej:
                raise Machinery("binding self test: corrupted observation was accepted")
            o.notes["binding_selftest"] = "rejected: " + rej[0][0]["clause"]
            return
    if len(cases) > 0 and not o.violations:
        raise Machinery("binding self test: no case could be corrupted")
    # (with violations to report, a self test that finds nothing to corrupt must not stand in their way)
    o.notes["binding_selftest"] = "skipped: violations found / every case was rejected"
