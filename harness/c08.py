"""C08 - copied and derived tables are independent; queries never change the parser."""
from __future__ import annotations

import copy
import io
import json
import random
import warnings
from contextlib import redirect_stdout

from . import tlc, decio
from . import c07
from .core import Outcome, ensure_repo_on_path, finish, pmap, Machinery, chunked

PROP = "C08"
QUERIES = ["mothers", "ndecays", "modes", "chains", "chains_stable", "expand", "print", "aliases", "cc", "defs", "copy",
           "model_aliases", "cdecays", "photos", "lineshape", "pythia", "jetset", "lspw", "particles"]
BASE = {"A": "Ab", "Ab": "A"}


def N(v): return {"t": "num", "v": v}
def W(v): return {"t": "word", "v": v}
def L(bf, ds, ph, mk, mn, ps): return {"bf": bf, "ds": ds, "ph": ph, "mk": mk, "mn": mn, "ps": ps}


TAIL = [{"k": "CopyDecay", "m": "C", "src": "A"}, {"k": "CDecay", "m": "Ab"}]
FILES = [
    [{"k": "Decay", "m": "A", "lines": [L("n1", ["x", "y"], False, "model", "M1", []),
                                         L("n2", ["x"], True, "model", "M2", [N("n1"), W("w1")])]}] + TAIL,
    [{"k": "Define", "m": "w1", "v": "n3"},
     {"k": "ModelAlias", "m": "MA", "mk": "model", "mn": "M1", "ps": [W("w1"), W("-w1"), W("w2")]},
     {"k": "Decay", "m": "A", "lines": [L("n1", ["x"], False, "alias", "MA", []), L("n2", ["y", "y"], True, "alias", "MA", [])]},
     {"k": "Decay", "m": "B", "lines": [L("n1", ["A", "x"], False, "model", "M1", []), L("n2", ["C", "Ab"], False, "model", "M2", [W("w1")])]},
     {"k": "Alias", "m": "x2", "src": "x"}, {"k": "Photos", "v": "yes"}] + TAIL,
    [{"k": "Decay", "m": "B", "lines": [L("n1", ["C", "Ab"], False, "model", "M1", []), L("n2", ["A", "A"], True, "model", "M2", [N("n2")])]},
     {"k": "Decay", "m": "A", "lines": [L("n1", ["x", "z"], True, "model", "M1", [W("w1")])]},
     {"k": "ChargeConj", "m": "C", "src": "Cb"}, {"k": "CDecay", "m": "Cb"}] + TAIL,
    [{"k": "Pythia", "cmd": "PythiaBothParam", "mod": "q1", "par": "q2", "val": {"t": "float", "v": "n1"}},
     {"k": "JetSet", "mod": "J", "num": "k1", "val": {"t": "int", "v": "k2"}},
     {"k": "LS", "ls": "LSNONRELBW", "m": "A"}, {"k": "BW", "m": "A", "v": "n2"},
     {"k": "LSPW", "m": "A", "d1": "x", "d2": "y", "n": "k1"},
     {"k": "Particle", "m": "x", "mass": "n1", "width": "n2"},
     {"k": "Decay", "m": "A", "lines": [L("n1", ["x", "y", "y"], False, "model", "M1", [N("n2"), N("n1")]),
                                         L("n1", ["y"], False, "model", "M2", [])]},
     {"k": "Decay", "m": "y", "lines": [L("n2", ["x", "x"], False, "model", "M1", [])]}] + TAIL,
]


def vandalise(obj, depth=0):
    if depth > 12:
        return
    if isinstance(obj, dict):
        for v in list(obj.values()):
            vandalise(v, depth + 1)
        try:
            for k in list(obj.keys())[:1]:
                del obj[k]
            obj["__junk__"] = ["junk"]
        except Exception:  # noqa: BLE001
            pass
    elif isinstance(obj, list):
        for v in obj:
            vandalise(v, depth + 1)
        obj.reverse()
        obj.append("JUNK")
        if len(obj) > 2:
            del obj[0]


def do_query(p, q, m, first_daughter):
    from decaylanguage.dec.dec import DecayNotFound
    try:
        if q == "mothers": return p.list_decay_mother_names()
        if q == "ndecays": return p.number_of_decays
        if q == "modes": return p.list_decay_modes(m)
        if q == "chains": return p.build_decay_chains(m)
        if q == "chains_stable": return p.build_decay_chains(m, stable_particles=list(first_daughter))
        if q == "expand": return p.expand_decay_modes(m)
        if q == "print":
            with redirect_stdout(io.StringIO()):
                p.print_decay_modes(m, normalize=True)
            return None
        if q == "aliases": return p.dict_aliases()
        if q == "cc": return p.dict_charge_conjugates()
        if q == "defs": return p.dict_definitions()
        if q == "copy": return p.dict_decays2copy()
        if q == "model_aliases": return p.dict_model_aliases()
        if q == "cdecays": return p.list_charge_conjugate_decays()
        if q == "photos": return p.global_photos_flag()
        if q == "lineshape": return p.dict_lineshape_settings()
        if q == "pythia": return p.dict_pythia_definitions()
        if q == "jetset": return p.dict_jetset_definitions()
        if q == "lspw": return p.list_lineshapePW_definitions()
        if q == "particles": return p.get_particle_property_definitions()
    except DecayNotFound:
        return None
    raise Machinery(f"unknown query {q}")


def direct(p, m):
    try:
        if m not in p.list_decay_mother_names():
            return "missing"
        modes = p.list_decay_modes(m)
        alld = sorted({d for mode in modes for d in mode})
        return json.loads(json.dumps([modes, p.build_decay_chains(m, stable_particles=alld)], default=repr))
    except Exception as e:  # noqa: BLE001  (an answer that cannot be given is an observation, not a harness failure)
        return "raised " + type(e).__name__


def rest(p):
    out = {}
    ms = p.list_decay_mother_names()
    out["mothers"] = ms
    out["n"] = p.number_of_decays
    for q in QUERIES[7:]:
        try:
            out[q] = do_query(p, q, None, None)
        except Exception as e:  # noqa: BLE001
            out[q] = "raised " + type(e).__name__
    return json.loads(json.dumps(out, default=repr))


def derived(p, ms):
    out = {}
    for m in ms:
        try:
            buf = io.StringIO()
            with redirect_stdout(buf):
                p.print_decay_modes(m)
            out[m] = [p.build_decay_chains(m), p.expand_decay_modes(m), buf.getvalue()]
        except Exception as e:  # noqa: BLE001
            out[m] = "raised " + type(e).__name__
    return json.loads(json.dumps(out, default=repr))


def node_ids(tree):
    from lark import Tree
    ids = set()
    stack = [tree]
    while stack:
        t = stack.pop()
        ids.add(id(t))
        if isinstance(t, Tree):
            stack.extend(t.children)
            ids.add(id(t.children))
    return ids


def poke(p, m):
    for t in p._parsed_decays:
        if t.children[0].children[0].value == m:
            lines = list(t.find_data("decayline"))
            lines[0].children[0].children[0].value = "0.777"
            return True
    return False
# a ladder of 13 nested tables (A -> d1 -> ... -> d12): deeper than any chain of the other files
FILES.append([{"k": "Decay", "m": "A", "lines": [L("n1", ["d1", "x"], False, "model", "M1", []), L("n2", ["x", "y"], True, "model", "M2", [])]}]
             + [{"k": "Decay", "m": f"d{i}", "lines": [L("n1", [f"d{i + 1}", "y"] if i < 12 else ["x", "y"], False, "model", "M1", [])]}
                for i in range(1, 13)] + TAIL)


def build(args):
    cid, fidx, beh, seed = args
    rng = random.Random(seed)
    src = FILES[fidx]
    cz = c07.CZ(rng, base=BASE, conj_matters=True)
    text = "\n".join(c07.render(cz, s) for s in src) + "\n"
    tabs = [cz.name("A"), cz.name("C"), cz.name("Ab")]
    first_d = [cz.name("x"), cz.name("A"), cz.name("Ab")]       # the stable set of "chains_stable": with and without tables
    extra = []        # python-side clauses (white box / fresh-instance structure)

    def fresh():
        p, err, _ = decio.parse_text(text)
        if p is None:
            raise Machinery(f"session file does not parse: {err!r}\n{text}")
        return p
    # three reference answers, each from an instance of its own on which nothing else was asked before (an answer
    # computed after other queries on the same instance would not be the answer of a *freshly parsed* instance)
    p0 = fresh()
    D0 = [direct(p0, m) for m in tabs]
    R0 = rest(fresh())
    # ... and the derived answers of every mother from an instance of their own: a query for one mother must not
    # decide what the instance answers for another
    X0 = {}
    for m in fresh().list_decay_mother_names():
        X0.update(derived(fresh(), [m]))
    # copy equals source in everything but the mother; a copy is usable as the source of a CDecay
    def strip(d, m):
        return json.loads(json.dumps(d).replace(json.dumps(m), '"@"')) if d != "missing" else d
    if strip(D0[1], tabs[1]) != strip(D0[0], tabs[0]):
        extra.append(("C08:copy-equals-source-but-for-the-mother", {"copy": D0[1], "source": D0[0]}))
    if any(s["k"] == "CDecay" and s["m"] == "Cb" for s in src):
        cb = direct(p0, cz.name("Cb"))
        if strip(cb, cz.name("Cb")) != strip(D0[2], tabs[2]):
            extra.append(("C08:copy-usable-as-source-of-cdecay", {"Cb": cb, "Ab": D0[2]}))
    # white box: node identity sets of a derived table and of its source are disjoint
    wb = "skipped"
    try:
        trees = {t.children[0].children[0].value: t for t in p0._parsed_decays}
        wb = "checked"
        for d in (tabs[1], tabs[2]):
            if d in trees and node_ids(trees[d]) & node_ids(trees[tabs[0]]):
                extra.append(("C08:derived-tables-share-no-state-with-their-source", {"derived": d, "whitebox": "shared nodes"}))
    except AttributeError:
        pass

    def expect_poked(i):
        d = copy.deepcopy(D0[i])
        if d == "missing":
            return d
        d[1][tabs[i]][0]["bf"] = 0.777
        return d

    p = fresh()
    last = None
    events = []
    poked = False
    for st in beh:
        op, arg = st["op"], st["arg"]
        with warnings.catch_warnings():
            warnings.simplefilter("ignore")
            if op == "mutate":
                vandalise(last)
                last = None
            elif op == "poke":
                try:
                    poke(p, tabs[arg - 1])
                except AttributeError:
                    wb = "skipped"
                    break
                poked = True
                last = None
            elif op == "reparse":
                p.parse()
                poked = False
                last = None
            else:
                m = tabs[arg - 1] if arg > 0 else tabs[0]
                try:
                    last = do_query(p, op, m, first_d)
                except Machinery:
                    raise
                except Exception:  # noqa: BLE001  (shows up as a changed answer in the snapshot below)
                    last = None
        content = []
        for i, m in enumerate(tabs):
            d = direct(p, m)
            if d == D0[i]:
                content.append("cL" if i == 2 else "L")
            elif d == expect_poked(i):
                content.append("P")
            else:
                content.append("J")
        if poked:
            rs = "n/a"
        else:
            rs = "same" if (rest(p) == R0 and derived(p, p.list_decay_mother_names()) == X0) else "diff"
        events.append({"op": op, "arg": arg, "content": content, "rest": rs})
    return {"prop": PROP, "cid": cid, "file": fidx, "beh": beh, "events": events, "text": text, "extra": extra, "whitebox": wb}


def gen_behaviours(wd, o, mode, maxlen, *, view, simulate=None, seed=0, queries=None):
    cfg = tlc.cfg_text(constants=dict(Variant="independent", MaxLen=maxlen, EmitMode=mode, Queries=set(queries or QUERIES)),
                       view="AbsView" if view else None)
    r = tlc.run("DecSession", cfg, workdir=wd, simulate=f"num={simulate}" if simulate else None,
                depth=maxlen + 1 if simulate else None, seed=seed if simulate else None, workers=1 if simulate else "auto")
    o.add_tlc(r, f"DecSession behaviours mode={mode} len<={maxlen}" + (" (simulation)" if simulate else ""))
    out = [x["v"] for x in r.by_tag("beh")]
    if simulate and len(out) > simulate:
        # in simulation TLC evaluates (and so emits) every enabled last step of a walk; keep `simulate` of them
        out = random.Random(seed).sample(out, simulate)
    return out


@chunked()
def judge(cases, wd, o, what):
    tf = wd / f"trace_{len(list(wd.glob('trace_*.json')))}.json"
    tf.write_text(json.dumps([c["events"] for c in cases]))
    cfg = tlc.cfg_text(constants=dict(Variant="independent", MaxLen=0, EmitMode="trace", Queries=set(QUERIES)))
    r = tlc.run("DecSession", cfg, workdir=wd, env={"TRACE_FILE": str(tf)})
    o.add_tlc(r, what)
    acc = {x["tid"] for x in r.by_tag("ACCEPT")}
    rej = {x["tid"] for x in r.by_tag("REJECT")}
    if acc | rej != set(range(1, len(cases) + 1)) or acc & rej:
        raise Machinery(f"trace verdicts not total: {len(acc)}+{len(rej)} of {len(cases)} ({r.stdout_path})")
    fails = {}
    for x in r.by_tag("FAIL"):
        fails.setdefault(x["tid"] - 1, []).append(x)
    return {t - 1: fails[t - 1] for t in rej}


def run(tier, seed, replay_path=None):
    ensure_repo_on_path()
    o = Outcome(PROP, tier, seed)
    rng = random.Random(seed)
    deep = tier == "thorough"
    wd = tlc.new_workdir("c08")
    try:
        # the design: independent holds, the three sharing designs are refuted
        for v, expect in (("independent", None), ("copy_shares", "NoSharing"), ("conj_in_place", "QueryPure"),
                          ("returns_internal", "QueryPure")):
            cfg = tlc.cfg_text(constants=dict(Variant=v, MaxLen=6, EmitMode="none", Queries={"chains", "aliases"}),
                               invariants=["QueryPure", "PokeFrame", "NoSharing"], view="AbsView")
            r = tlc.run("DecSession", cfg, workdir=wd, keep_records=False)
            o.add_tlc(r, f"model check variant {v}", expect_violation=bool(expect))
            if expect is None and r.violated:
                o.violate("spec-invariant", {"violated": r.violated}, r.stdout_path)
            # (which of the violated invariants TLC reports first depends on the scheduling of its workers)
            if expect and not r.violated:
                raise Machinery(f"variant {v} not refuted (expected {expect})")
        behs = gen_behaviours(wd, o, "trans", 6, view=True)
        paths = gen_behaviours(wd, o, "paths", 3 if deep else 2, view=False,
                               queries=None if deep else ["chains", "chains_stable", "expand", "modes", "print", "aliases"])
        if len(paths) > 40000:
            # all 524 160 three-step behaviours over the 19 queries are enumerated by TLC; 40 000 of them (seeded) are replayed
            o.notes["paths_enumerated"] = len(paths)
            paths = rng.sample(paths, 40000)
        behs += paths
        behs += gen_behaviours(wd, o, "paths", 10, view=False, simulate=3000 if deep else 250, seed=seed)
        if replay_path:
            c = json.load(open(replay_path))["case"]
            args = [(0, c["file"], c["beh"], seed)]
        else:
            args = [(i, i % len(FILES), b, seed * 13 + i) for i, b in enumerate(behs)]
        cases = pmap(build, args, chunk=16)
        rej = judge(cases, wd, o, "validate recorded session traces against DecSession (trace mode)")
        nwb = 0
        for i, c in enumerate(cases):
            o.traces += 1
            o.evaluations += len(c["events"])
            o.nontrivial.add(json.dumps([c["file"], c["beh"]]))
            nwb += c["whitebox"] == "checked"
            for clause, detail in c["extra"]:
                o.violate(clause, {"file": c["file"], "beh": []}, {"detail": detail, "text": c["text"]})
        for i, fl in rej.items():
            c = cases[i]
            o.violate(fl[0]["clause"], {"file": c["file"], "beh": c["beh"]},
                      {"clauses": [f["clause"] for f in fl], "diag": fl[0].get("diag"), "text": c["text"], "events": c["events"]})
        o.notes["whitebox_identity_checks"] = nwb
        # the copy clause on many files (several copies of one source, redefinitions, copies as CDecay sources)
        from . import decfam, decrand
        specs = [decrand.gen_c08(rng, i % 2 == 0) for i in range(3000 if deep else 300)]
        ccases, crej = decfam.run_cases("C08C", specs, o, wd, "judge CopyDecay tables of random files (DecTrace JudgeC08C)", seed + 5)
        o.notes["copy_files"] = len(ccases)
        # binding self test
        for i, c in enumerate(cases):
            if i not in rej and len(c["events"]) >= 2:
                m = copy.deepcopy(c)
                m["events"][1]["content"][1] = "J"
                if not judge([m], wd, Outcome(PROP, tier, seed), "selftest"):
                    raise Machinery("binding self test: corrupted content token accepted")
                o.notes["binding_selftest"] = "rejected"
                break
        for c in cases[-2:]:
            o.sample({"file": c["text"], "history": [(e["op"], e["arg"], e["content"], e["rest"]) for e in c["events"]]})
        o.rule = ("histories over one parser instance: every transition of the DecSession state graph via a shortest path, all "
                  "operation sequences up to a length bound, random walks of length 10 - each over 4 files (Decay, CopyDecay, "
                  "CDecay, ModelAlias, Define, globals); after every step each table's direct answers are classified against a "
                  "fresh instance and the event trace is validated by TLC; distinct = distinct (file, history)")
        o.assumptions = ["poke and the node-identity comparison use the private attribute _parsed_decays (skipped with a note if absent)"]
    finally:
        tlc.cleanup(wd)
    return finish(o)
