"""C11 - class, dictionary and parser forms of a decay convert into each other losslessly."""
from __future__ import annotations

import copy
import json
import random

from . import tlc, decio
from . import chainio as cio
from .c12 import flatten_universe, random_chain, shaped_chain, judge, record, selftest
from .core import Outcome, ensure_repo_on_path, finish, pmap, Machinery
from .pdgdata import tables as pdg_tables

PROP = "C11"


# ------------------------------------------------------------------ (a) chain -> dict -> chain
def build_roundtrip(args):
    cid, c, seed = args
    from decaylanguage import DecayChain, DecayMode
    rng = random.Random(seed)
    c = cio.norm_chain(c)
    cz = cio.ChainCZ(rng, cio.chain_names(c), zero=True)
    order = [d["n"] for d in c["decays"]]
    rng.shuffle(order)
    obs = {"raised": "-", "dict": {"m": "?", "entries": []}, "back": {"mother": "?", "decays": []},
           "dict2_same": True, "modes_ok": True}
    try:
        dc = cio.build_chain(cz, c, order=order, rng=rng)
        d1 = dc.to_dict()
        obs["dict"] = cio.proj_dict(cz, d1)
        pristine = copy.deepcopy(d1)
        dc2 = DecayChain.from_dict(d1)            # the dictionary itself, read twice: reading must leave it as it was
        dc3 = DecayChain.from_dict(d1)
        obs["back"] = cio.proj_chain(cz, dc2)
        obs["dict2_same"] = dc2.to_dict() == pristine and dc3.to_dict() == pristine and d1 == pristine \
            and dc.to_dict() == pristine
        for dm in dc.decays.values():
            dm2 = DecayMode.from_dict(dm.to_dict())
            if dm2.bf != dm.bf or dict(dm2.daughters) != dict(dm.daughters) or dm2.metadata != dm.metadata \
                    or dm2.to_dict() != dm.to_dict():
                obs["modes_ok"] = False
    except Exception as e:  # noqa: BLE001
        obs["raised"] = repr(e)[:200]
    return {"prop": "C11", "cid": cid, "c": c, "rank": cz.rank, "obs": obs, "names": cz.names}


# ------------------------------------------------------------------ (b) dictionaries, well-formed and not
def random_dict(rng, depth=0, state=None):
    """abstract dictionary tree: entries (usually one mode), decaying kids may repeat consistently or not"""
    state = state if state is not None else {"n": 0, "subs": {}}
    modes = []
    for _ in range(2 if rng.random() < 0.12 else 1):
        fs = []
        for _ in range(rng.randint(1, 3)):
            if depth < 3 and rng.random() < 0.45:
                if state["subs"] and rng.random() < 0.5:
                    n = rng.choice(sorted(state["subs"]))
                    sub = copy.deepcopy(state["subs"][n])
                    if rng.random() < 0.3:           # a conflicting repeat
                        sub = random_dict(rng, depth + 1, state)
                else:
                    state["n"] += 1
                    n = f"p{state['n']}"
                    sub = random_dict(rng, depth + 1, state)
                    state["subs"][n] = sub
                fs.append({"n": n, "dec": True, "sub": sub})
            else:
                fs.append({"n": f"l{rng.randint(0, 3)}", "dec": False, "sub": []})
        state["n"] += 1
        modes.append({"bf": f"bf{state['n']}", "meta": f"meta{rng.randint(0, 3)}", "fs": fs})
    if len(modes) == 1 and rng.random() < 0.06:
        # the same mode listed twice, word for word: still not a single decay chain
        modes.append(copy.deepcopy(modes[0]))
    return modes


def names_in(entries, acc):
    for e in entries:
        for k in e["fs"]:
            acc.add(k["n"])
            names_in(k["sub"], acc)
    return acc


def conc_entries(cz, entries):
    out = []
    for e in entries:
        fs = []
        for k in e["fs"]:
            fs.append({cz.names[k["n"]]: conc_entries(cz, k["sub"])} if k["dec"] else cz.names[k["n"]])
        md = {"model": "", "model_params": ""}
        md.update(copy.deepcopy(cz.meta(e["meta"])))
        out.append({"bf": cz.bf(e["bf"]), "fs": fs, **md})
    return out


def canon_entries(entries):
    """sort daughters the way the dictionary form reports them (spec: canonical order is by rank;
    here only used to make two real dictionaries comparable up to daughter order)"""
    out = []
    for e in entries:
        fs = [x if isinstance(x, str) else {k: canon_entries(v) for k, v in x.items()} for x in e["fs"]]
        fs.sort(key=lambda x: json.dumps(x, sort_keys=True, default=repr))
        out.append({**{k: v for k, v in e.items() if k != "fs"}, "fs": fs})
    return out


def build_dict(args):
    cid, d, seed = args
    from decaylanguage import DecayChain
    rng = random.Random(seed)
    names = sorted(names_in(d["entries"], {d["m"]}))
    cz = cio.ChainCZ(rng, names, zero=True)
    real = {cz.names[d["m"]]: conc_entries(cz, d["entries"])}
    obs = {"rejected": False, "raised": "-", "back": {"mother": "?", "decays": []}}
    try:
        dc = DecayChain.from_dict(real)
        obs["back"] = cio.proj_chain(cz, dc)
    except RuntimeError as e:
        obs["rejected"] = True
        obs["raised"] = repr(e)[:200]
    except Exception as e:  # noqa: BLE001
        obs["rejected"] = True
        obs["raised"] = "UNEXPECTED " + repr(e)[:200]
    return {"prop": "C11D", "cid": cid, "d": d, "obs": obs, "names": cz.names}


# ------------------------------------------------------------------ (c) final states built four ways
def build_fs(args):
    cid, bag, seed = args
    from decaylanguage import DaughtersDict, DecayMode
    rng = random.Random(seed)
    t = pdg_tables()
    names = sorted({k for k, _ in bag})
    cz = cio.ChainCZ(rng, names, real_only=True)
    flat = []
    for k, n in bag:
        flat += [cz.names[k]] * n
    forms, lists, lens = [], [], []

    def rec(make):
        # a construction that raises is an observation (a final state that is *not* the stated multiset), not a harness failure
        try:
            dd = make()
        except Exception as e:  # noqa: BLE001
            forms.append([["?raised " + type(e).__name__ + ": " + str(e)[:80], 1]])
            lists.append(["?raised"])
            lens.append(-1)
            return
        forms.append(sorted([cz.rname(k), v] for k, v in dd.items() if v > 0))
        lists.append([cz.rname(x) for x in dd.to_list()])
        lens.append(len(dd))
    for _ in range(2):
        rng.shuffle(flat)
        fl = list(flat)
        rec(lambda: DaughtersDict(" ".join(fl)))
        # the string form with other blank space between and around the names (columns as in a .dec line, tabs)
        ws = rng.choice(["  ", "    ", "\t", " \t ", "\n"])
        pad = rng.choice(["", " ", "\t", "  "])
        rec(lambda: DaughtersDict(pad + ws.join(fl) + pad))
        rec(lambda: DecayMode(0.5, pad + ws.join(fl) + pad).daughters)
        rec(lambda: DaughtersDict(list(fl)))
        rec(lambda: DaughtersDict(tuple(fl)))
        rec(lambda: DaughtersDict(x for x in fl))          # a generator
        m = {}
        for x in fl:
            m[x] = m.get(x, 0) + 1
        rec(lambda: DaughtersDict(dict(m)))
        rec(lambda: DecayMode(0.5, " ".join(fl)).daughters)
        rec(lambda: DecayMode.from_dict({"bf": 0.5, "fs": list(fl)}).daughters)
        # the dictionary form with the final state in the other forms the constructor reads
        rec(lambda: DecayMode.from_dict({"bf": 0.5, "fs": tuple(fl)}).daughters)
        rec(lambda: DecayMode.from_dict({"bf": 0.5, "fs": dict(m), "model": "PHSP"}).daughters)
        rec(lambda: DecayMode.from_dict({"bf": 0.5, "fs": " ".join(fl)}).daughters)
        rec(lambda: DecayMode.from_dict({"bf": 0.5, "fs": DaughtersDict(list(fl))}).daughters)
        rec(lambda: DecayMode(0.5, fs=list(fl)).daughters)
        rec(lambda: DecayMode(bf=0.5, daughters=DaughtersDict(dict(m))).daughters)
        ids = [t["evt"][x]["id"] for x in fl]
        rec(lambda: DecayMode.from_pdgids(0.5, ids).daughters)
        rec(lambda: DecayMode.from_pdgids(0.5, tuple(ids)).daughters)
        rec(lambda: DaughtersDict(dict(m)) + DaughtersDict())
        # part of the final state given positionally, the rest by keyword; completed in place after construction
        k = rng.randint(0, len(fl))
        head, tail = fl[:k], fl[k:]
        tm = {}
        for x in tail:
            tm[x] = tm.get(x, 0) + 1
        rec(lambda: DaughtersDict(" ".join(head), **tm))
        rec(lambda: DaughtersDict(list(head), **tm))
        rec(lambda: DaughtersDict(**dict(m)))

        def inplace(how):
            dd = DaughtersDict(list(head))
            if how == "item":
                for x in tail:
                    dd[x] += 1
            elif how == "iadd":
                dd += DaughtersDict(list(tail))
            else:
                dd.update(list(tail))
            return dd
        rec(lambda: inplace("item"))
        rec(lambda: inplace("iadd"))
        rec(lambda: inplace("update"))
    return {"prop": "C11F", "cid": cid, "fs": bag, "rank": cz.rank, "obs": {"forms": forms, "lists": lists, "lens": lens},
            "names": cz.names}


def pdgid_cases():
    """DecayMode.from_pdgids for every id of the EvtGen table (one C11F case per chunk of ids)"""
    from decaylanguage import DecayMode
    t = pdg_tables()
    bad = []
    for n, info in sorted(t["evt"].items()):
        try:
            dm = DecayMode.from_pdgids(1.0, [info["id"], info["id"]])
            if dict(dm.daughters) != {n: 2} and dict(dm.daughters) != {t["id2name"][info["id"]]: 2}:
                bad.append((n, info["id"], dict(dm.daughters)))
        except Exception as e:  # noqa: BLE001
            bad.append((n, info["id"], repr(e)))
    return bad, len(t["evt"])


def name_sweep():
    """the string, list and mapping forms of a final state for every name of the EvtGen table (names with slashes, primes,
    stars, parentheses, signs are not left to chance): the same multiset"""
    from decaylanguage import DaughtersDict, DecayMode
    t = pdg_tables()
    bad = []
    names = [n for n in sorted(t["evt"]) if " " not in n and "\t" not in n]
    for n in names:
        other = "pi0" if n != "pi0" else "gamma"
        want = {n: 2, other: 1}
        try:
            forms = {"string": DaughtersDict(f"{n} {other} {n}"), "list": DaughtersDict([n, other, n]), "mapping": DaughtersDict(dict(want)),
                     "mode-from-string": DecayMode(1.0, f"{n} {n} {other}").daughters,
                     "from_dict-string": DecayMode.from_dict({"bf": 1.0, "fs": f"{other} {n} {n}"}).daughters}
            for k, dd in forms.items():
                if dict(dd) != want or dd.to_list() != sorted([n, n, other]) or len(dd) != 3:
                    bad.append((n, k, dict(dd)))
                    break
        except Exception as e:  # noqa: BLE001
            bad.append((n, "raised", repr(e)))
    return bad, len(names)


# ------------------------------------------------------------------ (e) parser-produced single-line chains
def parser_chain_checks(rng, n):
    """from_dict(parser chain).to_dict() equals the parser's dictionary up to the order of daughters"""
    from decaylanguage import DecayChain
    from .decrand import gen_c01
    bad, tried = [], 0
    for i in range(n):
        # single-line, acyclic tables: mother P_i decays to lower-numbered mothers and leaves
        k = rng.randint(1, 5)
        lines = []
        src = []
        for j in range(k):
            ds = [f"P{q}" for q in range(j) if rng.random() < 0.5] + [f"d{rng.randint(0, 3)}" for _ in range(rng.randint(0, 3))]
            if rng.random() < 0.3 and j > 0:
                ds.append(f"P{rng.randrange(j)}")
            if not ds:
                ds = ["d0"]
            rng.shuffle(ds)
            ps = [{"t": "num", "v": "n1"}, {"t": "word", "v": "w1"}][: rng.randint(0, 2)]
            src.append({"k": "Decay", "m": f"P{j}", "lines": [{"bf": f"n{rng.randint(1, 4)}", "ds": ds, "ph": rng.random() < 0.3,
                                                             "mk": "model", "mn": f"M{rng.randint(1, 3)}", "ps": ps}]})
        cz = decio.Concretiser(rng, readable=True)
        text = decio.render_file(cz, src)
        p, err, _ = decio.parse_text(text)
        if p is None:
            raise Machinery(f"generated single-line file does not parse: {err!r}\n{text}")
        top = cz.name(f"P{k - 1}")
        d = p.build_decay_chains(top)
        tried += 1
        try:
            d2 = DecayChain.from_dict(d).to_dict()
            a = {m: canon_entries(v) for m, v in d.items()}
            b = {m: canon_entries(v) for m, v in d2.items()}
            if json.dumps(a, sort_keys=True, default=repr) != json.dumps(b, sort_keys=True, default=repr):
                bad.append({"text": text, "parser": d, "back": d2})
        except Exception as e:  # noqa: BLE001
            bad.append({"text": text, "parser": d, "error": repr(e)})
    return bad, tried


def corrupt(c):
    if c["prop"] == "C11" and c["obs"]["back"]["decays"]:
        c["obs"]["back"]["decays"][0]["bf"] = "zz"
        return True
    return False


def run(tier, seed, replay_path=None):
    ensure_repo_on_path()
    o = Outcome(PROP, tier, seed)
    rng = random.Random(seed)
    deep = tier == "thorough"
    wd = tlc.new_workdir("c11")
    try:
        emitted = flatten_universe(wd, o, 3, 3 if deep else 2, True,
                                   "Flatten universe: RoundTrip (FromDict(ToDict(c)) = c) on every chain; chains emitted")
        chains, seen = [], set()
        for e in emitted:
            k = json.dumps(e["c"], sort_keys=True)
            if k not in seen:
                seen.add(k)
                chains.append(e["c"])
        o.notes["universe_chains"] = len(chains)
        nwin = 20000 if deep else 1200
        if len(chains) > nwin:
            k = len(chains)
            off, step = seed % k, k // nwin
            chains = [chains[(off + i * step) % k] for i in range(nwin)]
        else:
            o.exhaustive = True
        chains += [random_chain(rng, 12 if i % 3 == 0 else 6) for i in range(4000 if deep else 500)]
        chains += [shaped_chain(rng, "wide" if i % 2 else "deep") for i in range(160 if deep else 24)]
        # the empty final state (the documented default mode `DecayMode()`): for the whole chain, or for a decaying
        # particle somewhere inside it
        for i in range(600 if deep else 80):
            ch = random_chain(rng, 5)
            victims = [d for d in ch["decays"] if i % 4 == 0 or d["n"] != ch["mother"]]
            v = rng.choice(victims or ch["decays"])
            v["ds"] = []
            # keep only what is still reachable from the mother
            byn = {d["n"]: d for d in ch["decays"]}
            seen_n, stack = set(), [ch["mother"]]
            while stack:
                n = stack.pop()
                if n in seen_n or n not in byn:
                    continue
                seen_n.add(n)
                stack += [k for k, _ in byn[n]["ds"]]
            ch["decays"] = [d for d in ch["decays"] if d["n"] in seen_n]
            chains.append(ch)
        if replay_path:
            rc = json.load(open(replay_path))["case"]
            chains = [rc["c"]] if rc.get("c") else chains[:1]
        cases = pmap(build_roundtrip, [(i, c, seed * 7 + i) for i, c in enumerate(chains)])
        dicts = [{"m": "top", "entries": random_dict(rng)} for _ in range(6000 if deep else 800)]
        cases += pmap(build_dict, [(i, d, seed * 11 + i) for i, d in enumerate(dicts)])
        bags = []
        for i in range(3000 if deep else 400):
            ks = rng.sample(["a", "b", "c", "d", "e"], rng.randint(1, 4))
            bags.append(sorted([k, rng.randint(1, 4)] for k in ks))
        cases += pmap(build_fs, [(i, b, seed * 13 + i) for i, b in enumerate(bags)])
        rej = judge(cases, wd, o, "judge round trips, dictionaries and final states (ChainTrace)")
        record(o, cases, rej, keys=("c", "d", "fs"))
        selftest(o, cases, rej, wd, corrupt, tier, seed)
        o.notes["dictionaries_rejected_as_expected"] = sum(1 for c in cases if c["prop"] == "C11D" and c["obs"]["rejected"])
        bad, n = pdgid_cases()
        o.notes["pdgids_checked"] = n
        o.evaluations += n
        for b in bad[:5]:
            o.violate("C11:final-state-from-pdg-ids", {"pdgid": b[1]}, {"name": b[0], "observed": b[2]})
        bad, n = name_sweep()
        o.notes["names_swept_through_every_final_state_form"] = n
        o.evaluations += n
        for b in bad[:5]:
            o.violate("C11:final-state-from-string-list-mapping-ids-is-the-same-multiset", {"name": b[0], "form": b[1]}, {"observed": b[2]})
        bad, n = parser_chain_checks(rng, 600 if deep else 80)
        o.notes["parser_chains_checked"] = n
        o.traces += n
        for b in bad[:5]:
            o.violate("C11:parser-chain-to-class-and-back-same-dictionary-up-to-daughter-order", {"parser_chain": True}, b)
        for c in cases[:1] + cases[-1:]:
            o.sample({k: c[k] for k in ("prop", "c", "d", "fs", "names") if k in c})
        o.rule = ("chains of the Flatten universe and random chains (up to 12 decaying particles, multiplicity 4, JSON-like "
                  "metadata) converted class -> dictionary -> class; random dictionaries incl. several modes and conflicting "
                  "repeats; final states built from string/list/tuple/mapping/PDG ids in shuffled orders; every id of the EvtGen "
                  "table; parser-produced single-line chains; distinct = distinct abstract inputs")
        o.assumptions = ["concrete names are chosen so that Python's sort order realises the abstract rank"]
    finally:
        tlc.cleanup(wd)
    return finish(o)
