"""C03 - CDecay yields the exact charge conjugate of the referenced decay table."""
from __future__ import annotations

import random

from . import tlc, decfam, decrand
from .core import Outcome, ensure_repo_on_path, finish

PROP = "C03"


def corrupt(c):
    for t in c["on"]["tables"]:
        if t["m"] not in c["off"]["mothers"]:
            for ln in t["lines"]:
                if ln["ds"]:
                    ln["ds"][0] = "zz"
                    return True
    return False


def window(files, n, seed, o, tag):
    if len(files) <= n:
        return files
    k = len(files)
    off, step = seed % k, k // n
    o.notes[f"window_{tag}"] = f"{n} of {k} files, rotating offset {off} step {step}"
    return [files[(off + i * step) % k] for i in range(n)]


def run(tier, seed, replay_path=None):
    ensure_repo_on_path()
    o = Outcome(PROP, tier, seed)
    rng = random.Random(seed)
    deep = tier == "thorough"
    wd = tlc.new_workdir("c03")
    try:
        if replay_path:
            import json
            c = json.load(open(replay_path))["case"]
            decfam.run_cases(PROP, [(c["src"], c["base"], True)], o, wd, "replay", seed, identity=c.get("identity", False))
            return finish(o)
        files = decfam.tlc_files("C03", 3, 1, wd, o)
        files = [f for f in files if f["incl"]]          # every case is observed with the switch on and off anyway
        if deep:
            more = decfam.tlc_files("C03", 4, 1, wd, o)
            files += [f for f in more if f["incl"]]
            files += [f for f in decfam.tlc_files("C03", 3, 2, wd, o) if f["incl"]]
        sim = decfam.tlc_files("C03", 9, 2, wd, o, check=False, simulate=4000 if deep else 400, seed=seed)
        decfam.reachability("C03", "NeverConj", wd, o)
        o.notes["universe_files"] = len(files)
        # only files that say something about C03: at least one CDecay
        files = [f for f in files if any(s["k"] == "CDecay" for s in f["src"])]
        files = window(files, 60000 if deep else 1200, seed, o, "exhaustive")
        specs = [(f["src"], f["base"], True) for f in files + sim]
        cases, rej = decfam.run_cases(PROP, specs, o, wd, "judge replayed TLC-generated files (DecTrace)", seed)
        n = 5000 if deep else 400
        specs = [decrand.gen_c03(rng, big=(i % 2 == 0)) for i in range(n)]
        cases2, rej2 = decfam.run_cases(PROP, specs, o, wd, "judge recorded traces over the real EvtGen names (DecTrace)",
                                        seed + 1, identity=True)
        for i, c in enumerate(cases2):
            c["identity"] = True
        names = set()
        for c in cases2:
            for s in c["src"]:
                for ln in s.get("lines", []):
                    names.update(ln["ds"])
        o.notes["distinct_real_names_as_daughters"] = len(names)
        o.notes["cases_with_conjugate_table"] = sum(1 for c in cases + cases2 if len(c["on"]["mothers"]) > len(c["off"]["mothers"]))
        for c in cases2[:2] + cases[:1]:
            o.sample({"text": c["text"], "on": c["on"]["mothers"], "off": c["off"]["mothers"]})
        decfam.selftest_binding(PROP, [c for i, c in enumerate(cases) if i not in rej], wd, o, corrupt)
        o.rule = ("abstract files with Decay/Alias/ChargeConj/CopyDecay/CDecay (TLC universe DecGen/C03, simulated longer "
                  "files, seeded random files over the real EvtGen names), each parsed three ways (conjugates on, off, CDecay "
                  "statements removed) and judged by DecTrace.tla; distinct = distinct abstract files")
        o.assumptions = ["the PDG conjugation relation (base) is derived from the installed particle data by negating ids",
                         "each name is the subject of at most one CDecay; ChargeConj declarations do not contradict PDG"]
    finally:
        tlc.cleanup(wd)
    return finish(o)
