"""C06 - every supported model name is recognised as itself; unknown models are rejected."""
from __future__ import annotations

import copy
import json
import random
import string

from . import tlc, decio
from .core import Outcome, ensure_repo_on_path, finish, pmap, Machinery, chunked

PROP = "C06"
WORDCH = string.ascii_letters + string.digits + "_"


def observe(case):
    """one decay line with `word` in the model position, inside a small file"""
    k = case
    lines = [f"Alias {a} K+" for a in k.get("alias_labels", [])]
    for d in k.get("defines", []):
        lines.append(f"Define {d} 0.5")
    for a in k["aliases"]:
        lines.append(f"ModelAlias {a} {k['alias_model']} 1.5;")
    lines.append("Decay B0sig")
    body = ["1.0"] + k["daughters"] + (["PHOTOS"] if k["photos"] else []) + [k["word"]] + k["params"]
    lines.append("  " + " ".join(body) + ";")
    for extra, _m in k.get("extra_lines", []):
        lines.append("  " + extra)
    lines.append("Enddecay")
    text = "\n".join(lines) + "\n"
    registered = k["listed"][k["npublished"]:]
    from decaylanguage import DecFileParser
    p = DecFileParser.from_string(text)
    mode = k.get("reg_mode", "normal")
    if k.get("twin_models"):
        # a shallow copy of the parser: what is registered on one of the two objects is not registered on the other
        import copy as _copy
        twin = _copy.copy(p)
        if mode == "registered_on_the_copy":
            twin.load_additional_decay_models(*k["twin_models"])
        else:                                   # "the_copy_is_parsed": registered on the original, the copy is parsed
            p.load_additional_decay_models(*k["twin_models"])
            p = twin
    if registered:
        # the names are registered before parsing - in one or two calls, possibly after the grammar has
        # already been looked at (grammar() / grammar_info() are public and load it)
        if mode == "after_failed_parse":
            # the route the library's own error message suggests: parse, be told to load the model, load it, parse again
            import warnings as _w
            try:
                with _w.catch_warnings():
                    _w.simplefilter("ignore")
                    p.parse()
            except Exception:  # noqa: BLE001
                pass
        if mode == "after_grammar":
            p.grammar()
        elif mode == "after_grammar_info":
            p.grammar_info()
        if (k.get("split_registration") or mode == "parse_twice") and len(registered) > 1:
            h = len(registered) // 2
            p.load_additional_decay_models(*registered[:h])
            p.load_additional_decay_models(*registered[h:])
        else:
            p.load_additional_decay_models(*registered)
    obs = {"fails": False, "error": "-", "model": "-", "daughters_ok": True, "params_ok": True}
    import warnings
    try:
        with warnings.catch_warnings():
            warnings.simplefilter("ignore")
            p.parse()
            if mode == "parse_twice":
                p.parse()
    except Exception as e:  # noqa: BLE001
        obs["fails"] = True
        obs["error"] = type(e).__name__
        out = dict(k)
        out["obs"] = obs
        out["text"] = text
        return out
    # "makes parsing fail": only a failure of parse() itself counts as a rejection; a query that raises on an accepted
    # text is an accepted text with an unreadable model
    try:
        ch = p.build_decay_chains("B0sig", stable_particles=k["daughters"])["B0sig"]
        e = ch[0]
        obs["model"] = e["model"]
        obs["daughters_ok"] = list(e["fs"]) == k["daughters"] and p.list_decay_modes("B0sig")[0] == k["daughters"]
        mp = e["model_params"]
        got = [] if mp in ("", []) else list(mp)
        want = [float(x) if _isnum(x) else x for x in k["params"]]
        if k["word"] in k["aliases"]:
            want = [1.5]
        obs["params_ok"] = got == want
        # the other lines of the block keep their own models
        for j, (extra, m) in enumerate(k.get("extra_lines", [])):
            if ch[j + 1]["model"] != m:
                obs["daughters_ok"] = False
        if len(ch) != 1 + len(k.get("extra_lines", [])):
            obs["daughters_ok"] = False
    except Exception as e:  # noqa: BLE001
        obs["model"] = "?query-raised " + type(e).__name__
        obs["error"] = type(e).__name__
        obs["daughters_ok"] = obs["params_ok"] = False
    out = dict(k)
    out["obs"] = obs
    out["text"] = text
    return out


def _isnum(x):
    try:
        float(x)
        return True
    except ValueError:
        return False


def make_cases(rng, deep):
    models = list(decio.model_names())
    npub = len(models)
    mset = set(models)
    cases = []

    def case(word, listed=None, daughters=None, photos=False, params=None, aliases=None, **kw):
        listed = listed or models
        c = {"listed": listed, "npublished": npub, "aliases": aliases or [], "alias_model": "PHSP", "word": word,
             "daughters": daughters if daughters is not None else ["K+", "pi-"], "photos": photos,
             "params": params or [], "nparams": len(params or []), "context": "", **kw}
        cases.append(c)
        return c

    def is_label(w, listed):
        return decio.label_ok(w, extra_models=listed[npub:])
    # 1. every published name x contexts x neighbours that extend this or another model name
    for i, m in enumerate(models):
        other = models[(i * 7 + 3) % npub]
        for photos in (False, True):
            for params in ([], ["0.5", "-1e3"], ["dm", m + "_p", other + "x"], ["1.0", m + "2"]):
                if any(not is_label(p, models) for p in params if not _isnum(p)):
                    params = [p for p in params if _isnum(p) or is_label(p, models)]
                ds = [d for d in (m + "x", other + "_1", "anti-" + m, m.lower() + "0") if is_label(d, models)]
                c = case(m, photos=photos, params=params, daughters=ds[: 1 + (i % 3)],
                         alias_labels=[x for x in (m + "y",) if is_label(x, models)],
                         defines=[x for x in (m + "_d",) if is_label(x, models)])
                c["context"] = "published name with extending neighbours"
    # 2. all prefix-related pairs side by side in one block
    pairs = [(a, b) for a in models for b in models if a != b and b.startswith(a)]
    for a, b in pairs:
        for first, second in ((a, b), (b, a)):
            c = case(first, extra_lines=[[f"0.5 K+ pi- {second};", second], [f"0.25 pi0 {first} 1.0;", first]])
            c["context"] = f"prefix pair {a} / {b}"
    # 3. user-registered names (letters, digits, _ and -, ending in a word character), overlapping published ones
    fam = []
    for m in rng.sample(models, 40 if deep else 12):
        fam += [m + "X", m + "_2", m[:-1] if len(m) > 3 else m + "Q", m + "-V2", "MY" + m, m + "-" + m]
    fam += ["CB3PI", "CB3PI-MPP-X", "CB3PI-", "NEW_MODEL", "new-model-1", "X", "A-B-C", "PHSP_", "P", "SVS_CP_ISO_2"]
    # names longer than any published one (the longest has 22 characters), and a one-character one
    fam += ["Z" * 23, "BToDiBaryonlnupQCD_TUNE2", "HQET3_WITH_LATTICE_FORM_FACTORS", "Q",
            "A_VERY_LONG_MODEL_NAME_FOR_A_PRIVATE_GENERATOR_RELEASE_2026", "L" + "o" * 60 + "ng", max(models, key=len) + "_LONGER"]
    fam = [f for f in dict.fromkeys(fam) if f not in mset and f[-1] in WORDCH and all(ch in WORDCH + "-" for ch in f)]
    for i in range(0, len(fam), 3):
        reg = fam[i:i + 3]
        listed = models + reg
        for w in reg + [rng.choice(models)]:
            c = case(w, listed=listed, params=rng.choice([[], ["0.5"], ["abc"]]), split_registration=bool(i % 2),
                     reg_mode=["normal", "after_grammar", "after_grammar_info", "parse_twice", "after_failed_parse"][len(cases) % 5])
            c["context"] = "registered names " + ",".join(reg) + " (" + c["reg_mode"] + ")"
        # the same names registered on a shallow copy of the parser only (or on the original, the copy being parsed):
        # for the parser that is parsed they are unknown words
        for w in reg[:2]:
            if is_label(w, models):
                c = case(w, listed=models, twin_models=reg, params=rng.choice([[], ["0.5"]]),
                         reg_mode=["registered_on_the_copy", "the_copy_is_parsed"][len(cases) % 2])
                c["context"] = "registered on the other of two shallow copies: " + ",".join(reg) + " (" + c["reg_mode"] + ")"
        # a published name that has a registered prefix / extension must still be itself
        for w in reg:
            for m in models:
                if m != w and (m.startswith(w) or w.startswith(m)):
                    c = case(m, listed=listed)
                    c["context"] = f"published {m} with registered relative {w}"
                    break
    # 3b. many names registered at once (more than a handful): each of them, first to last, is a model name
    many = [f"USERMODEL_{k:02d}" for k in range(1, 41)]
    for k, w in enumerate(many):
        if k % 4 == 0 or k >= 36:
            c = case(w, listed=models + many, params=rng.choice([[], ["0.5"]]), split_registration=bool(k % 8),
                     reg_mode=["normal", "after_grammar", "parse_twice"][k % 3])
            c["context"] = f"one of 40 names registered at once ({c['reg_mode']})"
    # 4. near-miss unknown words must make parsing fail (with and without parameters), defined aliases are accepted
    for m in (models if deep else rng.sample(models, 45)):
        muts = [m[:-1], m + "X", m[0] + m, m[:1].lower() + m[1:], m.replace("_", "", 1), m + "_", m[:len(m) // 2] + "Z" + m[len(m) // 2 + 1:]]
        for w in muts:
            if not w or w in mset or not decio.label_ok(w) or w[0] in "-+.0123456789":
                continue
            for params in ([], ["0.5"]):
                c = case(w, params=params)
                c["context"] = "near-miss unknown word"
            c = case(w, aliases=[w])
            c["context"] = "defined ModelAlias with a near-miss name"
    # 5. the same contexts once more with names registered: registration must not change how any *other* word is read
    #    (extending neighbours stay labels, near-miss words stay unknown, prefix pairs keep their own names)
    regs = [["MY_MODEL"], ["NEW_MODEL", "X"], ["PHSP_V2", "A-B-C"], ["Z9"], ["SVS_CP_ISO_2", "CB3PI-MPP-X"]]
    base = [c for c in cases if c["listed"] is models]
    step = 1 if deep else max(1, len(base) // 700)
    for j, c0 in enumerate(base[(seed_off(rng) % step)::step]):
        reg = regs[j % len(regs)]
        listed = models + reg
        words = c0["daughters"] + [x for x in c0["params"] if not _isnum(x)] + c0.get("alias_labels", []) + c0.get("defines", [])
        if c0["word"] in reg or any(not is_label(x, listed) for x in words):
            continue
        c = copy.deepcopy(c0)
        c["listed"] = listed
        c["reg_mode"] = ["normal", "after_grammar", "after_grammar_info", "parse_twice", "after_failed_parse"][j % 5]
        c["context"] = c0["context"] + " + registered " + ",".join(reg) + " (" + c["reg_mode"] + ")"
        cases.append(c)
    return cases


def seed_off(rng):
    return rng.randrange(1 << 16)


@chunked()
def judge(cases, wd, o, what):
    tf = wd / f"trace_{len(list(wd.glob('trace_*.json')))}.json"
    keep = ("listed", "aliases", "alias_model", "word", "nparams", "context", "obs")
    tf.write_text(json.dumps([{k: c[k] for k in keep} for c in cases]))
    r = tlc.run("ModelMatch", tlc.cfg_text(constants=dict(Mode="trace", Order="longest_first")), workdir=wd,
                env={"TRACE_FILE": str(tf)}, timeout=3000)
    o.add_tlc(r, what)
    acc = {x["tid"] for x in r.by_tag("ACCEPT")}
    rej = {x["tid"] for x in r.by_tag("REJECT")}
    if acc | rej != set(range(1, len(cases) + 1)) or acc & rej:
        raise Machinery(f"trace verdicts not total: {len(acc)}+{len(rej)} of {len(cases)} ({r.stdout_path})")
    fails = {}
    for x in r.by_tag("FAIL"):
        fails.setdefault(x["tid"] - 1, []).append(x)
    return {t - 1: fails[t - 1] for t in rej}


def run(tier, seed, replay_path=None):
    ensure_repo_on_path()
    o = Outcome(PROP, tier, seed)
    rng = random.Random(seed)
    deep = tier == "thorough"
    wd = tlc.new_workdir("c06")
    try:
        inv = ["MachineIsDeclarative", "NamesAreThemselves", "ExtensionsAreLabels"]
        r = tlc.run("ModelMatch", tlc.cfg_text(constants=dict(Mode="gen", Order="longest_first"), invariants=inv), workdir=wd,
                    keep_records=False)
        o.add_tlc(r, "ModelMatch gen: ordered alternation (longest first) = declarative longest match, on all words <= 5 chars")
        if r.violated:
            o.violate("spec-invariant", {"violated": r.violated}, r.stdout_path)
        r = tlc.run("ModelMatch", tlc.cfg_text(constants=dict(Mode="gen", Order="as_listed"), invariants=inv), workdir=wd,
                    keep_records=False)
        o.add_tlc(r, "refute the unsorted alternation", expect_violation=True)
        if not r.violated:
            raise Machinery("unsorted alternation not refuted: vacuous")
        cases = make_cases(rng, deep)
        o.notes["cases_built"] = len(cases)
        if replay_path:
            rc = json.load(open(replay_path))["case"]
            cases = [c for c in cases if c["word"] == rc["word"] and c["context"] == rc["context"]][:3] or cases[:1]
        elif not deep and len(cases) > 2500:
            # keep all prefix-pair and registered-name cases, rotate through the rest
            core = [c for c in cases if c["context"].startswith(("prefix pair", "registered", "published ")) and " + registered " not in c["context"]]
            plus = [c for c in cases if " + registered " in c["context"]]
            rest = [c for c in cases if c not in core and c not in plus]
            k = len(rest)
            off, step = seed % k, max(1, k // 1500)
            cases = core[:1500] + plus[:800] + [rest[(off + i * step) % k] for i in range(1500)]
        else:
            o.exhaustive = True
        built = pmap(observe, cases)
        rej = judge(built, wd, o, "judge model recognition / rejection (ModelMatch trace mode)")
        for c in built:
            o.traces += 1
            o.evaluations += 1
            o.nontrivial.add(json.dumps([c["word"], c["context"], c["photos"], c["params"], c["listed"][c["npublished"]:]]))
        for i, fl in rej.items():
            c = built[i]
            o.violate(fl[0]["clause"], {"word": c["word"], "context": c["context"], "registered": c["listed"][c["npublished"]:]},
                      {"clauses": [f["clause"] for f in fl], "diag": fl[0].get("diag"), "text": c["text"], "obs": c["obs"]})
        o.notes["published_names_covered"] = len({c["word"] for c in built if c["word"] in set(decio.model_names())})
        o.notes["rejections_expected_and_seen"] = sum(1 for i, c in enumerate(built) if c["obs"]["fails"] and i not in rej)
        probe = copy.deepcopy(next((c for i, c in enumerate(built) if i not in rej and not c["obs"]["fails"]), None))
        if probe is None and not rej:
            raise Machinery("binding self test: nothing to corrupt")
        if probe is not None:
            probe["obs"]["model"] = "OTHER"
            if not judge([probe], wd, Outcome(PROP, tier, seed), "selftest"):
                raise Machinery("binding self test: wrong model accepted")
            o.notes["binding_selftest"] = "rejected"
        for c in built[:1] + built[-2:]:
            o.sample({"text": c["text"], "registered": c["listed"][c["npublished"]:], "obs": c["obs"]})
        o.rule = ("one decay line per case with a chosen word in the model position: every published name x PHOTOS x parameter "
                  "forms x neighbours extending model names; all prefix-related pairs in one block; registered-name families "
                  "overlapping published names (one or two registration calls); near-miss unknown words; defined aliases; "
                  "distinct = distinct (word, context, registered set)")
        o.assumptions = ["registered names end in a word character; a listed name followed by a non-word character is outside the statement"]
    finally:
        tlc.cleanup(wd)
    return finish(o)
