"""Thin driver around the TLC model checker.

Every run gets its own directory under /verif/.work (spec modules are copied
there so that TLC's metadata, generated cfg files and trace inputs never touch
/verif/spec), and is removed by the caller when done.
"""
from __future__ import annotations

import json
import os
import re
import shutil
import subprocess
import time
from dataclasses import dataclass, field
from pathlib import Path

ROOT = Path(__file__).resolve().parent.parent
SPEC = ROOT / "spec"
WORK = ROOT / ".work"
JAVA_CP = "/opt/veriftools/tla/tla2tools.jar:/opt/veriftools/tla/CommunityModules-deps.jar"


class TLCError(RuntimeError):
    """Machinery failure (not a property violation)."""


@dataclass
class TLCResult:
    module: str
    rc: int
    wall_s: float
    generated: int = 0
    distinct: int = 0
    depth: int = 0
    violated: list[str] = field(default_factory=list)   # invariant / property names
    error_text: str = ""
    records: list[dict] = field(default_factory=list)   # parsed Emit/Chk/Verdict lines
    stdout_path: str = ""
    coverage: dict[str, int] = field(default_factory=dict)  # action -> count (with -coverage)
    cmd: str = ""

    def by_tag(self, tag: str) -> list[dict]:
        return [r for r in self.records if r.get("tag") == tag]

    @property
    def ok(self) -> bool:
        return self.rc == 0 and not self.violated


def new_workdir(name: str) -> Path:
    WORK.mkdir(exist_ok=True)
    d = WORK / f"{name}-{os.getpid()}-{int(time.time()*1000)%100000000}"
    d.mkdir(parents=True)
    for f in SPEC.glob("*.tla"):
        shutil.copy(f, d / f.name)
    return d


def cleanup(d: Path) -> None:
    if os.environ.get("VERIF_KEEP"):
        print("kept work dir", d)
        return
    shutil.rmtree(d, ignore_errors=True)


_RE_STATES = re.compile(r"^(\d+) states generated, (\d+) distinct states found", re.M)
_RE_DEPTH = re.compile(r"The depth of the complete state graph search is (\d+)")
_RE_INV = re.compile(r"Error: Invariant (\S+) is violated")
_RE_PROP = re.compile(r"Error: (?:Action|Temporal) propert(?:y|ies) (\S+)?.*violated")
_RE_COV = re.compile(r"^<(\w+) line \d+, col \d+ to line \d+, col \d+ of module (\w+)>: (\d+):(\d+)", re.M)


def parse_records(text: str) -> list[dict]:
    out = []
    for line in text.splitlines():
        if line.startswith('"{'):
            try:
                out.append(json.loads(json.loads(line)))
            except Exception as e:  # a torn line is a machinery failure
                raise TLCError(f"unparsable TLC record line: {line[:200]!r}: {e}")
    return out


def run(
    module: str,
    cfg: str,
    *,
    workdir: Path,
    workers: int | str = "auto",
    env: dict[str, str] | None = None,
    simulate: str | None = None,      # e.g. "num=2000"
    depth: int | None = None,
    seed: int | None = None,
    timeout: int = 900,
    coverage: bool = False,
    deadlock_check: bool = False,
    cont: bool = False,
    heap: str = "8g",
    dfs: bool = False,
    extra: list[str] | None = None,
    keep_records: bool = True,
) -> TLCResult:
    """Run TLC on `module` (a module of /verif/spec copied into workdir)."""
    cfgname = f"{module}__{int(time.time()*1000)%1000000}.cfg"
    (workdir / cfgname).write_text(cfg)
    meta = workdir / f"meta_{cfgname[:-4]}"
    jopts = [f"-Xmx{heap}", "-XX:+UseParallelGC", "-Xss32m"]      # deep recursive operators on long chains
    if dfs:
        jopts.append("-Dtlc2.tool.queue.IStateQueue=StateDeque")
    cmd = ["java", *jopts, "-cp", JAVA_CP, "tlc2.TLC",
           "-workers", str(workers), "-metadir", str(meta), "-noGenerateSpecTE",
           "-config", cfgname]
    if not deadlock_check:
        cmd.append("-deadlock")  # NB: TLC's -deadlock flag *disables* deadlock checking
    if simulate:
        cmd += ["-simulate", simulate]
    if depth is not None:
        cmd += ["-depth", str(depth)]
    if seed is not None:
        cmd += ["-seed", str(seed)]
    if coverage:
        cmd += ["-coverage", "1"]
    if cont:
        cmd.append("-continue")
    if extra:
        cmd += extra
    cmd.append(module)
    e = dict(os.environ)
    e.pop("JAVA_TOOL_OPTIONS", None)
    if env:
        e.update(env)
    outp = workdir / f"{cfgname[:-4]}.out"
    t0 = time.time()
    with outp.open("w") as fh:
        try:
            p = subprocess.run(cmd, cwd=workdir, env=e, stdout=fh, stderr=subprocess.STDOUT,
                               timeout=timeout)
            rc = p.returncode
        except subprocess.TimeoutExpired:
            rc = -9
    wall = time.time() - t0
    text = outp.read_text(errors="replace")
    res = TLCResult(module=module, rc=rc, wall_s=wall, stdout_path=str(outp), cmd=" ".join(cmd))
    m = None
    for m in _RE_STATES.finditer(text):
        pass
    if m:
        res.generated, res.distinct = int(m.group(1)), int(m.group(2))
    m = _RE_DEPTH.search(text)
    if m:
        res.depth = int(m.group(1))
    res.violated = _RE_INV.findall(text) + re.findall(r"The invariant of (\S+) is equal to FALSE", text)
    if "Action property" in text and "violated" in text or "Temporal properties were violated" in text:
        mm = re.search(r"Error: Action property (\S+) is violated|line \d+, col \d+ to line \d+, col \d+ of module \w+ is violated", text)
        res.violated.append(mm.group(1) if mm and mm.group(1) else "action-or-temporal-property")
    if coverage:
        for mm in _RE_COV.finditer(text):
            res.coverage[f"{mm.group(2)}.{mm.group(1)}"] = int(mm.group(3))
    if keep_records:
        res.records = parse_records(text)
    if rc == -9:
        raise TLCError(f"TLC timed out after {timeout}s: {' '.join(cmd)} (output {outp})")
    # rc 0 = ok, 12 = safety violation, 13 = liveness; anything else is machinery
    if rc not in (0, 12, 13) and not (rc == 151 and res.violated):
        err = [l for l in text.splitlines() if "Error" in l or "error" in l or "Exception" in l]
        res.error_text = "\n".join(err[:20])
        raise TLCError(f"TLC failed rc={rc} on {module}: {res.error_text}\n(output {outp})")
    if rc in (12, 13) and not res.violated:
        err = [l for l in text.splitlines() if l.startswith("Error")]
        res.error_text = "\n".join(err[:10])
        res.violated.append("unknown:" + res.error_text[:200])
    return res


def sany(module_path: Path) -> tuple[bool, str]:
    p = subprocess.run(["java", "-cp", JAVA_CP, "tla2sany.SANY", module_path.name],
                       cwd=module_path.parent, capture_output=True, text=True)
    ok = p.returncode == 0 and "Semantic errors" not in p.stdout and "***Parse Error***" not in p.stdout \
        and "Fatal errors" not in p.stdout
    return ok, p.stdout[-2000:]


def cfg_text(*, init="Init", next_="Next", spec=None, constants: dict | None = None,
             invariants=(), properties=(), constraint=None, action_constraint=None,
             view=None, symmetry=None, postcondition=None) -> str:
    lines = []
    if spec:
        lines.append(f"SPECIFICATION {spec}")
    else:
        lines += [f"INIT {init}", f"NEXT {next_}"]
    if constants:
        lines.append("CONSTANTS")
        for k, v in constants.items():
            lines.append(f"  {k} = {tla_value(v)}")
    for i in invariants:
        lines.append(f"INVARIANT {i}")
    for p in properties:
        lines.append(f"PROPERTY {p}")
    if constraint:
        lines.append(f"CONSTRAINT {constraint}")
    if action_constraint:
        lines.append(f"ACTION_CONSTRAINT {action_constraint}")
    if view:
        lines.append(f"VIEW {view}")
    if symmetry:
        lines.append(f"SYMMETRY {symmetry}")
    if postcondition:
        lines.append(f"POSTCONDITION {postcondition}")
    return "\n".join(lines) + "\n"


def tla_value(v) -> str:
    """Render a Python value as a TLC cfg constant (ints, bools, strings, sets, tuples)."""
    if isinstance(v, bool):
        return "TRUE" if v else "FALSE"
    if isinstance(v, int):
        return str(v)
    if isinstance(v, str):
        return '"' + v.replace("\\", "\\\\").replace('"', '\\"') + '"'
    if isinstance(v, (set, frozenset)):
        return "{" + ", ".join(sorted(tla_value(x) for x in v)) + "}"
    if isinstance(v, (list, tuple)):
        return "<<" + ", ".join(tla_value(x) for x in v) + ">>"
    raise TypeError(v)
