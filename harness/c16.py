"""C16 - printed decay-mode tables show every mode once, correctly ordered and scaled."""
from __future__ import annotations

import io
import json
import random
import warnings
from contextlib import redirect_stdout
from decimal import Decimal
from fractions import Fraction

from . import tlc, decfam, decio
from .core import Outcome, ensure_repo_on_path, finish, pmap, Machinery, chunked
from .pdgdata import tables as pdg_tables

PROP = "C16"
VALUE_POOL = ["1e-12", "3.3e-11", "2E-9", "6.5e-08", "1.25e-6", "3.3392e-05", "0.00017", ".001", "0.0271", "0.0542",
              "0.08", "0.1", "0.25", "0.333333333", "0.5", ".533", "0.75", "0.988228297", "1", "1.0"]
SCALE_VALUES = {"one": [1.0, 1], "frac": [0.5, 0.123, 0.999, 1e-3], "zero": [0.0, 0], "neg": [-0.3, -1.0], "big": [1.5, 2, 1.0000001, float("inf")],
                "nan": [float("nan")]}          # not a number: outside ]0, 1] like any other bad value


def pdg_mothers():
    t = pdg_tables()
    return sorted((e, p) for e, p in t["evt2pdg"].items() if e != p and decio.label_ok(e) and " " not in p)


def build(args):
    cid, lines, opt, seed = args
    rng = random.Random(seed)
    pdg = cid % 3 == 0
    n = len(lines)
    # distinct increasing values for the ranks in use
    ranks = sorted({ln["r"] for ln in lines})
    pool = sorted({Fraction(Decimal(s)) for s in VALUE_POOL})
    spell = {}
    if all("sp" in ln for ln in lines):
        # spellings given with the lines (tables whose sum is almost, but not exactly, one)
        for ln in lines:
            spell[ln["r"]] = ln["sp"]
    else:
        vals = sorted(rng.sample(pool, len(ranks)))
        for r, v in zip(ranks, vals):
            spell[r] = rng.choice([s for s in VALUE_POOL if Fraction(Decimal(s)) == v])
    labels = [w for w in decio.label_pool() if decio.word_ok(w)]
    ds = []
    used = set()
    for i in range(n):
        while True:
            d = [rng.choice(labels) for _ in range(rng.randint(1, 3))]
            if tuple(d) not in used:
                used.add(tuple(d))
                break
        ds.append(d)
    models = [rng.choice(decio.model_names()) for _ in range(n)]
    params = []
    for i in range(n):
        ps = []
        for _ in range(rng.choice([0, 0, 1, 3])):
            ps.append(rng.choice(["0.5", "2.", "1e3", "-0.25"]) if rng.random() < 0.6 else rng.choice(labels))
        params.append(ps)
    if pdg:
        mother, mother_arg = rng.choice(pdg_mothers())
    else:
        mother = mother_arg = rng.choice(labels)
    text = ""
    if cid % 3 != 1:
        # another table first whose mother is a spelling related to this one (D+ before D*+, Omega before omega, eta before
        # eta'): the table printed for a name is that name's
        decoys = [w for w in decio.related_variants(mother) if len(w) > 1 and decio.label_ok(w)]
        if pdg:
            from decaylanguage.utils.particleutils import charge_conjugate_name as _ccn
            decoys = [w for w in decoys if w != _ccn(mother)]          # the conjugate's table is made by CDecay below
        if decoys:
            text = f"Decay {rng.choice(decoys)}\n  1.0 {rng.choice(labels)} {rng.choice(labels)} PHSP;\nEnddecay\n"
    text += f"Decay {mother}\n"
    for i, ln in enumerate(lines):
        parts = [spell[ln["r"]]] + ds[i] + (["PHOTOS"] if ln["ph"] else []) + [models[i]] + params[i]
        text += "  " + " ".join(parts) + ";\n"
    text += "Enddecay\n"
    # every sixth table is printed through its charge conjugate (a table made by CDecay is a table like any other):
    # expected rows are those of the conjugate table as list_decay_modes reports it (C03 / C04 judge that)
    mbar = None
    if pdg and cid % 2 == 0:
        from decaylanguage.utils.particleutils import charge_conjugate_name
        cand = charge_conjugate_name(mother)
        if cand != mother and not cand.startswith("ChargeConj") and decio.label_ok(cand):
            mbar = cand
            text += f"CDecay {mbar}\n"
    p, err, _ = decio.parse_text(text)
    if p is None:
        raise Machinery(f"generated table does not parse: {err!r}\n{text}")
    if mbar:
        cds = p.list_decay_modes(mbar) if mbar in p.list_decay_mother_names() else []
        ds = cds if len(cds) == n else [["?no-conjugate-table"]] * n
        mother = mother_arg = mbar
        pdg = False

    def snapshot():
        return json.dumps([p.list_decay_mother_names(), p.list_decay_modes(mother),
                           p.build_decay_chains(mother, stable_particles=[d for x in ds for d in x])], default=repr)
    before = snapshot()
    kw = dict(print_model=opt["model"], display_photos_keyword=opt["kw"], ascending=opt["asc"],
              normalize=opt["norm"], pdg_name=pdg)
    sc = None
    if opt["scale"] != "none":
        sc = rng.choice(SCALE_VALUES[opt["scale"]])
        kw["scale"] = sc
    buf = io.StringIO()
    raised = False
    try:
        with redirect_stdout(buf), warnings.catch_warnings():
            warnings.simplefilter("ignore")
            if cid % 4 == 3:
                # the same call with every argument given by position (the order of the documented signature)
                p.print_decay_modes(mother_arg, kw["pdg_name"], kw["print_model"], kw["display_photos_keyword"], kw["ascending"],
                                    kw["normalize"], kw.get("scale"))
            else:
                p.print_decay_modes(mother_arg, **kw)
    except Exception as e:  # noqa: BLE001
        raised = repr(e)
    out = buf.getvalue()
    bfs = [Fraction(Decimal(spell[ln["r"]])) for ln in lines]
    tot, mx = sum(bfs), max(bfs)
    order, rows = [], []
    for raw in out.splitlines():
        if not raw.strip():
            continue
        toks = raw.rstrip().rstrip(";").split()
        val, rest = toks[0], toks[1:]
        idx = 0
        for i in range(n):
            if rest[:len(ds[i])] == ds[i]:
                tail = rest[len(ds[i]):]
                exp_ps = [str(float(x)) if _isnum(x) else x for x in params[i]]
                forms = {"none": [], "model": [models[i]] + exp_ps, "kw": ["PHOTOS", models[i]] + exp_ps}
                form = next((k for k, f in forms.items() if tail == f), None)
                if form is not None:
                    idx = i + 1
                    break
        order.append(idx)
        fits = []
        if idx:
            try:
                P = Fraction(Decimal(val))
                exp = {"raw": bfs[idx - 1], "norm": bfs[idx - 1] / tot}
                if sc and 0 < sc <= 1:
                    exp["scale"] = bfs[idx - 1] * Fraction(sc).limit_denominator(10**12) / mx
                for k, E in exp.items():
                    if fits_printed(P, E):
                        fits.append(k)
            except Exception:  # noqa: BLE001
                pass
            rows.append({"model": form in ("model", "kw"), "kw": form == "kw",
                         "params": form in ("model", "kw"), "fits": fits or ["nothing"], "printed": val})
        else:
            rows.append({"model": False, "kw": False, "params": False, "fits": ["nothing"], "printed": raw})
    obs = {"raised": bool(raised), "order": order if not raised else [], "rows": rows if not raised else [],
           "stored_same": snapshot() == before}
    return {"prop": PROP, "cid": cid, "lines": lines, "opt": opt, "pdg": pdg, "obs": obs,
            "text": text, "stdout": out, "call": {k: v for k, v in kw.items()}, "error": raised or "-"}


def fits_printed(P, E):
    """the printed value is E to the 7 significant digits the printer shows (1.5 units of the 7th digit)"""
    if E == 0:
        return P == 0
    import math
    unit = Fraction(10) ** (math.floor(math.log10(abs(float(E)))) - 6)
    return abs(P - E) <= Fraction(3, 2) * unit


NEAR_ONE = [["0.9", "0.1000005"], ["0.5", "0.3", "0.1999992"], ["0.6000004", "0.4"], ["0.25", "0.7499993"],
            ["0.7", "0.2", "0.1000008"], ["0.3333333", "0.6666661"], ["0.45", "0.35", "0.15", "0.0499994"]]


def _isnum(x):
    try:
        float(x)
        return True
    except ValueError:
        return False


def corrupt(c):
    if len(c["obs"]["order"]) >= 2 and c["obs"]["order"][0] != c["obs"]["order"][1]:
        c["obs"]["order"][0], c["obs"]["order"][1] = c["obs"]["order"][1], c["obs"]["order"][0]
        return True
    return False


@chunked()
def judge(cases, wd, o, what):
    tf = wd / f"trace_{len(list(wd.glob('trace_*.json')))}.json"
    strip = ("text", "stdout", "call", "error", "cid")
    tf.write_text(json.dumps([{k: v for k, v in c.items() if k not in strip} for c in cases]))
    cfg = tlc.cfg_text(constants=dict(Mode="trace", MaxLines=1, MaxRank=1))
    r = tlc.run("DecPrint", cfg, workdir=wd, env={"TRACE_FILE": str(tf)})
    o.add_tlc(r, what)
    acc = {x["tid"] for x in r.by_tag("ACCEPT")}
    rej = {x["tid"] for x in r.by_tag("REJECT")}
    if acc | rej != set(range(1, len(cases) + 1)) or acc & rej:
        raise Machinery(f"trace verdicts not total ({r.stdout_path})")
    fails = {}
    for x in r.by_tag("FAIL"):
        fails.setdefault(x["tid"] - 1, []).append(x)
    return {t - 1: fails[t - 1] for t in rej}


def run(tier, seed, replay_path=None):
    ensure_repo_on_path()
    o = Outcome(PROP, tier, seed)
    rng = random.Random(seed)
    deep = tier == "thorough"
    wd = tlc.new_workdir("c16")
    try:
        ml, mr = (4, 3) if deep else (3, 2)
        cfg = tlc.cfg_text(constants=dict(Mode="gen", MaxLines=ml, MaxRank=mr), invariants=["SortLemmas"])
        r = tlc.run("DecPrint", cfg, workdir=wd)
        o.add_tlc(r, f"DecPrint gen: all tables <= {ml} lines over {mr} ranks x all option combinations; SortLemmas")
        if r.violated:
            o.violate("spec-invariant", {"violated": r.violated}, r.stdout_path)
        gen = [x["v"] for x in r.by_tag("case")]
        r2 = tlc.run("DecPrint", tlc.cfg_text(constants=dict(Mode="gen", MaxLines=3, MaxRank=2), invariants=["NoTies"]),
                     workdir=wd, keep_records=False)
        o.add_tlc(r2, "reachability companion NoTies", expect_violation=True)
        if "NoTies" not in r2.violated:
            raise Machinery("NoTies not violated: ties never exercised")
        o.notes["universe_cases"] = len(gen)
        if replay_path:
            c = json.load(open(replay_path))["case"]
            gen = [{"lines": c["lines"], "opt": c["opt"]}]
        elif not deep and len(gen) > 3000:
            k = len(gen)
            off, step = seed % k, k // 3000
            gen = [gen[(off + i * step) % k] for i in range(3000)]
            o.notes["universe_window"] = f"3000 of {k}, offset {off} step {step}"
        else:
            o.exhaustive = True
        # longer random tables (1..8 lines, ties) on top of the enumerated ones
        extra = []
        for _ in range(3000 if deep else 300):
            n = rng.randint(1, 8)
            extra.append({"lines": [{"r": rng.randint(1, 5), "ph": rng.random() < 0.4} for _ in range(n)],
                          "opt": {"model": rng.random() < 0.5, "kw": rng.random() < 0.5, "asc": rng.random() < 0.5,
                                  "norm": rng.random() < 0.3, "scale": rng.choice(["none", "none", "one", "frac", "frac", "zero", "neg", "big", "nan"])}})
        # long tables: two-digit line counts and more distinct values than any enumerated one
        for _ in range(300 if deep else 40):
            n = rng.randint(9, 30)
            extra.append({"lines": [{"r": rng.randint(1, 15), "ph": rng.random() < 0.4} for _ in range(n)],
                          "opt": {"model": rng.random() < 0.5, "kw": rng.random() < 0.5, "asc": rng.random() < 0.5,
                                  "norm": rng.random() < 0.3, "scale": rng.choice(["none", "none", "one", "frac", "frac", "zero", "big"])}})
        # tables whose branching fractions sum to one within 1e-6 but not exactly: normalising is *not* the identity
        for j in range(400 if deep else 60):
            sp = list(rng.choice(NEAR_ONE))
            rng.shuffle(sp)
            order = sorted(set(Fraction(Decimal(x)) for x in sp))
            extra.append({"lines": [{"r": order.index(Fraction(Decimal(x))) + 1, "ph": rng.random() < 0.3, "sp": x} for x in sp],
                          "opt": {"model": rng.random() < 0.5, "kw": rng.random() < 0.5, "asc": rng.random() < 0.5,
                                  "norm": j % 3 != 2, "scale": "none" if j % 3 != 2 else rng.choice(["one", "frac"])}})
        args = [(i, g["lines"], g["opt"], seed * 31 + i) for i, g in enumerate(gen + extra)]
        cases = pmap(build, args)
        rej = judge(cases, wd, o, "judge printed tables (DecPrint trace mode)")
        for c in cases:
            o.traces += 1
            o.evaluations += 1
            o.nontrivial.add(json.dumps([c["lines"], c["opt"], c["pdg"]], sort_keys=True))
        for i, fl in rej.items():
            c = cases[i]
            o.violate(fl[0]["clause"], {"lines": c["lines"], "opt": c["opt"], "pdg": c["pdg"]},
                      {"clauses": [f["clause"] for f in fl], "diag": fl[0].get("diag"), "text": c["text"],
                       "call": c["call"], "stdout": c["stdout"], "error": c["error"]})
        good = [c for i, c in enumerate(cases) if i not in rej]
        import copy
        for c in good:
            m = copy.deepcopy(c)
            if corrupt(m):
                dummy = Outcome(PROP, tier, seed)
                if not judge([m], wd, dummy, "selftest"):
                    raise Machinery("binding self test: corrupted row order accepted")
                o.notes["binding_selftest"] = "rejected"
                break
        for c in cases[:3]:
            o.sample({"text": c["text"], "call": c["call"], "stdout": c["stdout"]})
        o.rule = ("(table, option combination) pairs: every table of the DecPrint universe x 2^4 boolean options x 6 scale "
                  "classes, plus random tables of up to 8 lines; printed rows matched to lines by their (unique) daughters; "
                  "distinct = distinct (ranks, options, pdg) triples")
        o.assumptions = ["a printed value fits a scaling if it agrees with the exact rational to 1.5 units of the 7th significant digit (the printer shows 7)"]
    finally:
        tlc.cleanup(wd)
    return finish(o)
