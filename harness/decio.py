"""Concretisation (abstract .dec file -> text) and projection (real parser ->
abstract observation) for the DecParse family of checks."""
from __future__ import annotations

import io
import itertools
import random
import re
import string
import warnings
from contextlib import redirect_stdout
from decimal import Decimal
from fractions import Fraction
from functools import lru_cache

from .pdgdata import tables as pdg_tables

SYMS = "/-+*_().'~"
LITERAL_SPELLINGS = [
    "1", "1.", ".5", "-0.8", "+3", "20.e12", "2E-4", "0.507e12", "1e-12", "1.0", "0.25", "3.",
    "+.75", "7E+2", "-2.5e-3", "0.0", "00.125", "0.988228297", "6.5e-08", "-.001", "1.e1",
    "12345.678", "0.1", "2", "1E3", "3.3392e-05",
]


def lit_value(sp: str) -> Fraction:
    return Fraction(Decimal(sp))


@lru_cache(maxsize=1)
def model_names():
    from decaylanguage.dec.enums import known_decay_models
    return tuple(known_decay_models)


_num_led = re.compile(r"^[+-]?(\d|\.\d)")


def label_ok(w: str, extra_models=()) -> bool:
    """A word the *documented* lexical structure treats as one LABEL wherever a
    label may stand: not number-led, not starting with PHOTOS, not a model
    name followed by a word boundary.  (Rule of the grammar, not a call into it.)"""
    if not w or any(c not in string.ascii_letters + string.digits + SYMS for c in w):
        return False
    if _num_led.match(w):
        return False
    if w.startswith("PHOTOS"):
        return False
    for m in itertools.chain(model_names(), extra_models):
        if w.startswith(m) and (len(w) == len(m) or not (w[len(m)].isalnum() or w[len(m)] == "_")):
            return False
    return True


SPECIAL_WORDS = ["inf", "nan", "Infinity", "NaN", "INF", "infinity", "yes", "no", "on", "off", "True", "False", "None", "e", "E",
                 # words that begin like a keyword in another letter case (only a line starting with `End` is special)
                 "endcap_frac", "ENDPOINT", "enddecay_1", "decay", "DECAY0", "alias", "define_x"]


def word_ok(w: str) -> bool:
    """usable as a free parameter word: a label that float() would not read and
    that does not start with '-' (that spelling means negation of a Define'd name)"""
    if not label_ok(w) or w[0] == "-":
        return False
    try:
        float(w)
        return False
    except ValueError:
        return True


@lru_cache(maxsize=1)
def label_pool():
    rng = random.Random(12345)
    classes = ["L", "D"] + list(SYMS)

    def conc(cl):
        if cl == "L":
            return rng.choice(string.ascii_letters)
        if cl == "D":
            return rng.choice(string.digits)
        return cl
    words = set()
    for n in (1, 2, 3):
        for combo in itertools.product(classes, repeat=n):
            words.add("".join(conc(c) for c in combo))
    tricky = ["anti-K*0", "K_1(1270)+", "f'_0", "a~b", "D*(2010)+", "Upsilon(4S)", "PHSPx", "xPHSP", "VSS_BMIXX",
              "SVS2", "ISGW22", "MyPHOTOS", "Decayed", "End1", "Enddecayx", "noPhotosX", "Alias2", "e5", "E+",
              "x.5", "a/b", "Lambda_b0", "anti-Lambda_c(2593)-", "K~*0", "cs_0", "Xi'_c+", "B_s0sig", "MyD_0*+",
              "CDecayX", "Define_x", "yesPhotos1", "inf2", "nu_tau", "J/psi", "psi(2S)", "h'_1", "a_0+"]
    evt = list(pdg_tables()["evt"].keys())
    out = sorted(w for w in set(list(words) + tricky + evt) if label_ok(w))
    return out


@lru_cache(maxsize=1)
def _unknown_to_every_table(w: str) -> bool:
    if w in pdg_tables()["evt"]:
        return False
    from particle import Particle
    try:
        Particle.from_evtgen_name(w)
        return False
    except Exception:  # noqa: BLE001
        return True


def unknown_labels():
    """labels no PDG/EvtGen table knows (their conjugate must come back wrapped)"""
    evt = pdg_tables()["evt"]
    from particle import Particle
    out = []
    for w in label_pool():
        if w in evt:
            continue
        try:
            Particle.from_evtgen_name(w)
            continue
        except Exception:
            out.append(w)
    return out


def _readable(w: str) -> bool:
    d = 0
    for ch in w:
        d += (ch == "(") - (ch == ")")
        if d < 0:
            return False
    return d == 0 and not w.startswith("(")


def related_variants(base: str) -> list[str]:
    """spellings related to `base`: extensions, truncations, the other letter case, and names that match it (or that it
    matches) when one of them is read as a shell pattern (`*` is an ordinary character of particle names)"""
    out = [base + "'", base + "0", base + "_1", base + "bar", "anti-" + base, base + "*", base + "S", "My" + base,
           base[:-1], base[1:], base.swapcase(), base.lower(), base.upper(), base + "_mass",
           base[:1] + "*" + base[1:], base.replace("*", ""), base.replace("*", "_S"), base.replace("*", "x*")]
    return [w for w in dict.fromkeys(out) if w and w != base]


class Concretiser:
    """Injective maps abstract -> concrete for one abstract file."""

    def __init__(self, rng: random.Random, base: dict[str, str] | None = None, conj_matters: bool = False,
                 readable: bool = False, vocab: str | None = None):
        """vocab: when given, the spelling chosen for an abstract token depends only on (vocab, kind, token) (and on
        clashes with what is already bound): different abstract files rendered with one vocab share their words, so that
        a process reading them one after the other sees textually equal fragments with different meanings."""
        self.rng = rng
        self.vocab = vocab
        self.names: dict[str, str] = {}
        self.words: dict[str, str] = {}
        self.models: dict[str, str] = {}
        self.lits: dict[str, str] = {}
        self.used = set()
        t = pdg_tables()
        base = base or {}
        pairs = [(n, c) for n, c in t["evt_conj"].items() if c and c != n and label_ok(n) and label_ok(c)]
        selfs = [n for n, c in t["evt_conj"].items() if c == n and label_ok(n)]
        for n, c in sorted(base.items()):
            if n in self.names:
                continue
            if c == n:
                self._bind(n, self._pick(selfs, self._r("self", n)))
            else:
                r = self._r("pair", min(n, c))
                while True:
                    a, b = r.choice(pairs)
                    if a not in self.used and b not in self.used:
                        break
                self._bind(n, a)
                self._bind(c, b)
        self.conj_matters = conj_matters
        self.free_pool = unknown_labels() if conj_matters else label_pool()
        if readable:
            # descriptors are read back by bracket matching: names balanced in (), not starting with "("
            self.free_pool = [w for w in self.free_pool if _readable(w)]

    def _r(self, kind: str, tok: str) -> random.Random:
        return self.rng if self.vocab is None else random.Random(f"{self.vocab}/{kind}/{tok}")

    def _pick(self, pool, r=None):
        r = r or self.rng
        for _ in range(1000):
            w = r.choice(pool)
            if w not in self.used:
                return w
        raise RuntimeError("pool exhausted")

    def _bind(self, a, c):
        self.names[a] = c
        self.used.add(c)

    # spellings related to a spelling already in use: an extension, a truncation, the other letter case - names that are
    # prefixes, suffixes or case twins of each other are ordinary in decay files (eta / eta' / eta_c, D0 / anti-D0 / D0bar,
    # Omega / omega) and a substring, prefix or case-folding test in the code confuses exactly those
    related = False

    def _related_spelling(self, r):
        base = r.choice(sorted(self.names.values()))
        forms = related_variants(base)
        readable = all(_readable(w) for w in self.free_pool[:50])
        r.shuffle(forms)
        for w in forms:
            if len(w) > 1 and w not in self.used and label_ok(w) and (not readable or _readable(w)) and not w.startswith("ChargeConj"):
                if self.conj_matters and not _unknown_to_every_table(w):
                    continue                # a free name must stay one whose conjugate comes back wrapped
                return w
        return None

    def name(self, a: str) -> str:
        if a not in self.names:
            r = self._r("name", a)
            w = self._related_spelling(r) if (self.related and self.names and r.random() < 0.5) else None
            self._bind(a, w or self._pick(self.free_pool, r))
        return self.names[a]

    def word(self, a: str) -> str:
        if a.startswith("-") and len(a) > 1:
            return "-" + self.word(a[1:])
        if a not in self.words:
            r = self._r("word", a)
            for _ in range(1000):
                # now and then a word that Python would read as a number or a truth value but the grammar reads as a word
                special = SPECIAL_WORDS if not getattr(self, "no_floatlike_words", False) else SPECIAL_WORDS[6:]
                w = r.choice(special) if r.random() < 0.07 else r.choice(label_pool())
                if (word_ok(w) or w in special) and w not in self.used:
                    break
            self.words[a] = w
            self.used.add(w)
        return self.words[a]

    def model(self, a: str) -> str:
        if a not in self.models:
            r = self._r("model", a)
            for _ in range(1000):
                m = r.choice(model_names())
                if m not in self.models.values():
                    break
            self.models[a] = m
        return self.models[a]

    def lit(self, a: str) -> str:
        if a not in self.lits:
            vals = {lit_value(s) for s in self.lits.values()}
            r = self._r("lit", a)
            if getattr(self, "zero_literals", False) and 0 not in vals and r.random() < 0.2:
                self.lits[a] = r.choice(["0", "0.0", "0.0000", "0."])
                return self.lits[a]
            for _ in range(1000):
                s = r.choice(LITERAL_SPELLINGS)
                v = lit_value(s)
                # distinct values, and no two literals that are negatives of each other
                if v not in vals and -v not in vals and v != 0:
                    break
            self.lits[a] = s
        return self.lits[a]

    # ---- reverse maps (projection of observed concrete values)
    def rname(self, c: str) -> str:
        for a, x in self.names.items():
            if x == c:
                return a
        if c.startswith("ChargeConj(") and c.endswith(")"):
            inner = self.rname(c[len("ChargeConj("):-1])
            return f"ChargeConj({inner})"
        return "?" + c

    def rword(self, c):
        if isinstance(c, str):
            neg = c.startswith("-") and len(c) > 1
            core = c[1:] if neg else c
            for a, x in self.words.items():
                if x == core:
                    return {"t": "word", "v": ("-" if neg else "") + a}
            return {"t": "word", "v": "?" + c}
        return {"t": "num", "v": self.rnum(c)}

    def rnum(self, x) -> str:
        if isinstance(x, bool) or not isinstance(x, (int, float)):
            return "?" + repr(x)
        for a, s in self.lits.items():
            v = lit_value(s)
            if float(v) == x and isinstance(x, float):
                return a
            if float(-v) == x and isinstance(x, float):
                return "-" + a
        return "?" + repr(x)

    def rmodel(self, c: str) -> str:
        for a, x in self.models.items():
            if x == c:
                return a
        return "?" + c

    def maps(self):
        return {"names": self.names, "words": self.words, "models": self.models, "lits": self.lits}


# --------------------------------------------------------------------- rendering
def render_param(cz: Concretiser, p) -> str:
    if p["t"] == "num" and p["v"].startswith("-"):
        # "-n3" (a negated Define'd value, only in expanded files): a literal of the negated value
        sp = cz.lit(p["v"][1:])
        return sp[1:] if sp[0] == "-" else ("-" + sp[1:] if sp[0] == "+" else "-" + sp)
    return cz.lit(p["v"]) if p["t"] == "num" else cz.word(p["v"])


def render_model(cz: Concretiser, mk, mn, ps) -> str:
    head = cz.model(mn) if mk == "model" else cz.name(mn)
    return " ".join([head] + [render_param(cz, p) for p in ps])


def render_stmt(cz: Concretiser, s) -> str:
    k = s["k"]
    if k == "Decay":
        out = [f"Decay {cz.name(s['m'])}"]
        for ln in s["lines"]:
            parts = [cz.lit(ln["bf"])] + [cz.name(d) for d in ln["ds"]]
            if ln["ph"]:
                parts.append("PHOTOS")
            parts.append(render_model(cz, ln["mk"], ln["mn"], ln["ps"]) + ";")
            out.append("  " + " ".join(parts))
        out.append("Enddecay")
        return "\n".join(out)
    if k == "CDecay":
        return f"CDecay {cz.name(s['m'])}"
    if k in ("CopyDecay", "Alias", "ChargeConj"):
        return f"{k} {cz.name(s['m'])} {cz.name(s['src'])}"
    if k == "Define":
        return f"Define {cz.word(s['m'])} {cz.lit(s['v'])}"
    if k == "ModelAlias":
        return f"ModelAlias {cz.name(s['m'])} {render_model(cz, s['mk'], s['mn'], s['ps'])};"
    raise ValueError(k)


def render_file(cz: Concretiser, src) -> str:
    return "\n".join(render_stmt(cz, s) for s in src) + "\n"


# --------------------------------------------------------------------- observing
def parse_text(text: str, incl: bool = True, extra_models=()):
    """-> (parser | None, exception | None, warnings list)"""
    from decaylanguage import DecFileParser
    p = DecFileParser.from_string(text)
    if extra_models:
        p.load_additional_decay_models(*extra_models)
    with warnings.catch_warnings(record=True) as w:
        warnings.simplefilter("always")
        try:
            p.parse(include_ccdecays=incl)
        except Exception as e:  # noqa: BLE001
            return None, e, [str(x.message) for x in w]
    return p, None, [str(x.message) for x in w]


def photos_rows(p, mother: str):
    """multiset of (daughters string, has PHOTOS) as printed by print_decay_modes"""
    buf = io.StringIO()
    with redirect_stdout(buf):
        p.print_decay_modes(mother, print_model=True, display_photos_keyword=True)
    rows = []
    for line in buf.getvalue().splitlines():
        rows.append(line)
    return rows


def observe_tables(p, cz: Concretiser):
    """Project the parser's answers (public API) to abstract tables."""
    mothers = p.list_decay_mother_names()
    out = []
    for m in mothers:
        modes = p.list_decay_modes(m)
        all_daughters = sorted({d for mode in modes for d in mode})
        chain = p.build_decay_chains(m, stable_particles=all_daughters)
        entries = chain[m]
        # PHOTOS column through the public printer: rows are sorted by bf, so match as a multiset
        rows = photos_rows(p, m)
        lines = []
        for j, e in enumerate(entries):
            ds = [cz.rname(d) if isinstance(d, str) else "?nested" for d in e["fs"]]
            mp = e["model_params"]
            ps = [] if mp in ("", []) else [cz.rword(x) for x in mp]
            lines.append({"bf": cz.rnum(e["bf"]), "ds": ds, "ph": None,
                          "mn": cz.rmodel(e["model"]), "ps": ps,
                          "lm": [cz.rname(d) for d in modes[j]] if j < len(modes) else ["?missing"]})
        # white-box cross-check of the PHOTOS flag per line (private helper; optional)
        try:
            dms = p._find_decay_modes(m)
            for j, dm in enumerate(dms):
                det = p._decay_mode_details(dm, display_photos_keyword=True)
                lines[j]["ph"] = det["model"].startswith("PHOTOS ")
        except Exception:  # noqa: BLE001
            pass
        n_photos_rows = sum(1 for r in rows if re.search(r"\sPHOTOS\s", r + " "))
        out.append({"m": cz.rname(m), "lines": lines, "nrows": len(rows), "nphotos": n_photos_rows,
                    "nmodes": len(modes)})
    return {"mothers": [cz.rname(m) for m in mothers], "ndecays": p.number_of_decays, "tables": out}


def observe(text: str, cz: Concretiser, incl: bool = True, extra_models=()):
    p, err, warns = parse_text(text, incl, extra_models)
    if p is None:
        return {"fails": True, "error": type(err).__name__, "mothers": [], "ndecays": 0, "tables": []}, None
    o = observe_tables(p, cz)
    o["fails"] = False
    o["error"] = "-"
    return o, p


# --------------------------------------------------------------------- canonical snapshot of every public query
GLOBAL_QUERIES = ["dict_aliases", "dict_charge_conjugates", "dict_definitions", "dict_decays2copy", "dict_model_aliases",
                  "list_charge_conjugate_decays", "get_particle_property_definitions", "dict_pythia_definitions",
                  "dict_jetset_definitions", "dict_lineshape_settings", "list_lineshapePW_definitions", "global_photos_flag"]


def full_snapshot(p, deep=None, with_print=True):
    """Every public answer of a parsed DecFileParser as one JSON-able value.  `deep`: mothers whose full
    chains / expansions are included as well (None = all mothers with a small unfolding)."""
    import json
    snap = {}
    mothers = p.list_decay_mother_names()
    snap["mothers"] = mothers
    snap["n"] = p.number_of_decays
    for q in GLOBAL_QUERIES:
        try:
            snap[q] = getattr(p, q)()
        except Exception as e:  # noqa: BLE001
            snap[q] = "raised " + type(e).__name__
    tabs = {}
    for m in dict.fromkeys(mothers):
        try:
            modes = p.list_decay_modes(m)
            alld = sorted({d for mode in modes for d in mode})
            entry = [modes, p.build_decay_chains(m, stable_particles=alld)]
            if with_print:
                buf = io.StringIO()
                with redirect_stdout(buf):
                    p.print_decay_modes(m)
                entry.append(buf.getvalue())
            tabs[m] = entry
        except Exception as e:  # noqa: BLE001
            tabs[m] = "raised " + type(e).__name__
    snap["tables"] = tabs
    if deep is None:
        from .decquery import unfold_size
        ot = [{"m": m, "lines": [{"ds": mode} for mode in (tabs[m][0] if isinstance(tabs[m], list) else [])]}
              for m in tabs]
        deep = []
        for m in tabs:
            n, np_ = unfold_size(ot, m, cap=10**5)
            if n is not None and np_ is not None and n <= 300 and np_ <= 300:
                deep.append(m)
        deep = deep[:60]
    snap["deep_mothers"] = list(deep)
    dd = {}
    for m in deep:
        try:
            dd[m] = [p.build_decay_chains(m), p.expand_decay_modes(m)]
        except Exception as e:  # noqa: BLE001
            dd[m] = "raised " + type(e).__name__
    snap["deep"] = dd
    return json.loads(json.dumps(snap, default=repr))
