"""setup_cmd: check that TLC, the repo and the spec modules are usable (offline)."""
import sys
from pathlib import Path

from . import tlc


def main() -> int:
    bad = 0
    for f in sorted(tlc.SPEC.glob("*.tla")):
        ok, out = tlc.sany(f)
        print(("ok   " if ok else "FAIL ") + f.name)
        if not ok:
            print(out)
            bad += 1
    sys.path.insert(0, "/repo/src")
    import decaylanguage  # noqa: F401
    import hypothesis  # noqa: F401
    print("decaylanguage from", decaylanguage.__file__)
    return 1 if bad else 0


if __name__ == "__main__":
    sys.exit(main())
