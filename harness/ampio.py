"""Concretisation / projection for AmpGen option files (C17 - C20)."""
from __future__ import annotations

import cmath
import random
from decimal import Decimal
from fractions import Fraction

# AmpGen-style names with the PDG id they must resolve to (fixed reference, not computed by the code under test)
FINALS = {"D0": 421, "K-": -321, "K+": 321, "pi+": 211, "pi-": -211}
RES = {  # name -> (pdgid, spin class, decays to)
    "K*(892)bar0": (-313, "V", ("K-", "pi+")),
    "rho(770)0": (113, "V", ("pi+", "pi-")),
    "rho(1450)0": (100113, "V", ("pi+", "pi-")),
    "omega(782)0": (223, "V", ("pi+", "pi-")),
    "K(1)(1270)bar-": (-10323, "A", None),
    "K(1)(1400)bar-": (-20323, "A", None),
    "a(1)(1260)+": (20213, "A", None),
    "K(2)*(1430)bar-": (-325, "T", None),
    "K(1460)bar-": (-100321, "P", None),
    "KPi00": (998111, "S", ("K-", "pi+")),
    "KPi10": (988111, "S", ("K-", "pi+")),
    "PiPi00": (998101, "S", ("pi+", "pi-")),
    "PiPi10": (988101, "S", ("pi+", "pi-")),
    "PiPi20": (978101, "S", ("pi+", "pi-")),
}
TWIN_SPELLINGS = {"rho(770)0": "rho0", "K*(892)bar0": "K*bar0", "K(1)(1270)bar-": "K(1)(1270)-", "a(1)(1260)+": "a(1)+",
                  "omega(782)0": "omega(782)", "K(1)(1400)bar-": "K(1)(1400)-"}
LS_TAGS = ["GSpline.EFF", "kMatrix.pole.1", "kMatrix.prod.0", "FOCUS.Kpi", "FOCUS.I32", "BW", "LASS.x"]
NUM_SPELL = ["1", "0", "0.648936", "-0.271637", "2.01551", "-2.96395", "3.01374", "0.0205762", "1e-3", "-1.5E+0", "+0.25",
             "0.5", "1.25", "-0.75", "2", "0.123456789",
             # past 2 pi, past 180 and 360, large and tiny: a number is read as written whatever its size
             "7.5", "-9.25", "131.6", "-360", "1e4", "-1e-7", "6.2831853"]


def val(sp: str) -> float:
    return float(Fraction(Decimal(sp)))


class AmpCZ:
    def __init__(self, rng, event=("D0", "K-", "pi+", "pi+", "pi-")):
        self.rng = rng
        self.names = {}
        self.vals = {}
        self.ls = {}
        self.event = event

    def bind_default(self):
        self.names.update({"M": self.event[0], "a": self.event[1], "b": self.event[2], "c": self.event[4]})
        r1 = [n for n, (_, _, d) in RES.items() if d == ("K-", "pi+")]
        r2 = [n for n, (_, _, d) in RES.items() if d == ("pi+", "pi-")]
        r3 = [n for n, (_, _, d) in RES.items() if d is None]
        self.names["R1"] = self.rng.choice(r1)
        self.names["R2"] = self.rng.choice(r2)
        self.names["R3"] = self.rng.choice(r3)

    def name(self, a):
        if a not in self.names:
            # "<token>t": another spelling of the resonance bound to <token> that the reader resolves to the same particle
            if a.endswith("t") and a[:-1] in self.names and TWIN_SPELLINGS.get(self.names[a[:-1]]):
                self.names[a] = TWIN_SPELLINGS[self.names[a[:-1]]]
                return self.names[a]
            pool = [n for n in list(RES) + list(FINALS) if n not in self.names.values()]
            self.names[a] = self.rng.choice(pool)
        return self.names[a]

    def rname(self, c):
        for a, x in self.names.items():
            if x == c:
                return a
        return "?" + str(c)

    def v(self, tok):
        if tok not in self.vals:
            used = {val(s) for s in self.vals.values()}
            for _ in range(1000):
                s = self.rng.choice(NUM_SPELL)
                if val(s) not in used:
                    break
            self.vals[tok] = s
        return self.vals[tok]

    def rv(self, x):
        for t, s in self.vals.items():
            if val(s) == x:
                return t
        return "?" + repr(x)

    def lstag(self, tok):
        if tok not in self.ls:
            pool = [t for t in LS_TAGS if t not in self.ls.values()]
            self.ls[tok] = self.rng.choice(pool)
        return self.ls[tok]

    def rls(self, c):
        if c is None:
            return "-"
        for t, s in self.ls.items():
            if s == c:
                return t
        return "?" + str(c)


def render_tree(cz, t):
    s = cz.name(t["name"])
    if t["kids"]:
        tags = []
        if t["sf"] != "-":
            tags.append(t["sf"])
        if t["ls"] != "-":
            tags.append(cz.lstag(t["ls"]))
        if tags:
            s += "[" + ";".join(tags) + "]"
        s += "{" + ",".join(render_tree(cz, k) for k in t["kids"]) + "}"
    return s


def render_file(cz, f, rng, noise=True):
    out = []

    def junk():
        if noise and rng.random() < 0.25:
            out.append(rng.choice(["", "# a comment", "   ", "#EventType B0 K+ K-", "# D0{K-,pi+} 0 1 0 0 1 0"]))
    junk()
    out.append("EventType " + " ".join(cz.name(n) for n in f["event"]))
    body = []
    for ln in f["lines"]:
        c1, c2 = ln["c1"], ln["c2"]
        body.append(f"{render_tree(cz, ln['tree'])}   {c1['fix']} {cz.v(c1['v'])} {cz.v(c1['e'])}   {c2['fix']} {cz.v(c2['v'])} {cz.v(c2['e'])}")
    tail = []
    for v in f["vars"]:
        tail.append(f"{v['name']}   {v['fix']}  {cz.v(v['v'])}  {cz.v(v['e'])}")
    for c in f["consts"]:
        tail.append(f"{c['name']} {cz.v(c['v'])}")
    if f["cart"] != "absent":
        tail.insert(rng.randint(0, len(tail)), f"FastCoherentSum::UseCartesian {f['cart']}")
    for x in f.get("extra", []):
        tail.insert(rng.randint(0, len(tail)), x)
    for x in body + tail:
        junk()
        out.append(x + (rng.choice(["", "  ", "  # trailing"]) if noise else ""))
    junk()
    return "\n".join(out) + "\n"


def proj_tree(cz, line):
    return {"name": cz.rname(line.name), "sf": line.spinfactor or "-", "ls": cz.rls(line.lineshape),
            "kids": [proj_tree(cz, d) for d in (line.daughters or [])]}


def coupling_fits(amp, a, b):
    fits = []
    pol = cmath.rect(a, b)
    if abs(amp - pol) <= 1e-12 * max(1.0, abs(pol)):
        fits.append("polar")
    car = complex(a, b)
    if abs(amp - car) <= 1e-12 * max(1.0, abs(car)):
        fits.append("cart")
    return fits or ["nothing"]


def fast_lookup():
    """The installed `particle` package needs ~0.5 s per fuzzy name search (Particle.findall scans and formats
    the whole table).  particle_from_string_name is a pure function of the name, so inside one worker
    process each distinct name is resolved once by the real code and the result re-used.  (Only the reader's
    reference to it is wrapped; fresh-interpreter comparisons of C20 run without this.)"""
    import functools
    from decaylanguage.modeling import amplitudechain
    f = amplitudechain.particle_from_string_name
    if not hasattr(f, "cache_info"):
        amplitudechain.particle_from_string_name = functools.lru_cache(maxsize=None)(f)
