"""Concretisation / projection for single decay chains (C11, C12, C13)."""
from __future__ import annotations

import copy
import json
import random
from fractions import Fraction

from . import decio
from .descriptor import parse_all
from .pdgdata import tables as pdg_tables

PRIMES = [2, 3, 5, 7, 11, 13, 17, 19, 23, 29, 31, 37, 41, 43, 47, 53, 59, 61, 67, 71, 73, 79, 83, 89, 97]
SPELLINGS = ["K_1(1270)+", "Upsilon(4S)", "f'_0", "anti-K*0", "D*(2010)+", "a_1(1260)-", "K*(892)0", "h'_1", "B_s0",
             "anti-Lambda_c(2593)-", "Xi'_c+", "D'_s1+", "eta'", "rho(1450)0", "anti-B0", "J/psi", "psi(2S)",
             "f_2(1270)", "K_S0", "pi+", "pi-", "pi0", "gamma", "e+", "nu_tau", "anti-nu_tau", "K+", "K-", "D0", "D*+"]
META_POOL = [
    {},
    {"model": "PHSP"},
    {"model": "TAUHADNU", "model_params": [-0.108, 0.775, 0.149, 1.364, 0.4]},
    {"model": "SVS", "model_params": "", "study": "toy", "year": 2019},
    {"model": "HELAMP", "model_params": [1.0, "dm", -0.5], "zfit": {"B0": "gauss", "opts": [1, None, {"a": [2.5]}]}},
    {"note": None, "tags": ["a", "b"], "nested": {"x": {"y": [1, 2, {"z": None}]}}},
    {"model": "VSS_BMIX", "model_params": ["dm"], "weight": 0.25},
    {"model_params": [0.5]},
    # falsy parameter values that are not "no parameters given": kept as they are
    {"model": "PHSP", "model_params": []},
    {"model": "VSS", "model_params": 0},
    {"model_params": 0.0, "flag": False, "count": 0},
]
PATTERNS = [("{mother} -> {daughters}", "({mother} -> {daughters})"),
            ("{mother} --> {daughters}", "[{mother} --> {daughters}]"),
            ("{mother} => {daughters}", "{mother} (=> {daughters})"),
            ("{daughters} <- {mother}", "<{daughters} <- {mother}>"),
            ("{mother}: {daughters}", "<{mother}: {daughters}>"),
            ("[{mother} -> {daughters}]", "[{mother} -> {daughters}]"),
            # what str.format makes of a pattern: escaped braces are single braces, conversions and specs apply
            ("{mother} -> {daughters}", "{{{mother} -> {daughters}}}"),
            ("{mother!s} => {daughters:s}", "({mother:s} => {daughters!s})")]


def _readable(w):
    d = 0
    for ch in w:
        d += (ch == "(") - (ch == ")")
        if d < 0:
            return False
    return d == 0 and not w.startswith("(") and not w.startswith("[") and not w.startswith("<")


class ChainCZ:
    """abstract chain (from TLC or a generator) -> real objects and back"""

    def __init__(self, rng, names, real_only=False, zero=False):
        self.zero = zero          # one branching-fraction token may stand for the default value 0
        # concrete names whose Python sort order realises an arbitrary rank of the abstract names
        pool = [w for w in decio.label_pool() if _readable(w) and " " not in w]
        if real_only:
            pool = [n for n in pdg_tables()["evt"] if _readable(n)]
        pick = set()
        cand = SPELLINGS[:] if not real_only else []
        rng.shuffle(cand)
        # in one chain out of three some names are spellings of each other (extension, truncation, case twin, a name that
        # matches another read as a shell pattern): see decio.related_variants
        related = rng.random() < 0.34
        poolset = set(pool) if real_only else None
        while len(pick) < len(names):
            w = None
            if related and pick and rng.random() < 0.5:
                base = rng.choice(sorted(pick))
                if real_only:
                    import fnmatch
                    near = [n for n in pool if n != base and n not in pick and
                            (n.lower() == base.lower() or base in n or n in base or fnmatch.fnmatchcase(n, base)
                             or fnmatch.fnmatchcase(base, n))]
                    w = rng.choice(near) if near else None
                else:
                    forms = [v for v in decio.related_variants(base) if len(v) > 1 and v not in pick and decio.label_ok(v)
                             and _readable(v) and " " not in v]
                    w = rng.choice(forms) if forms else None
            if w is None:
                w = cand.pop() if cand and rng.random() < 0.6 else rng.choice(pool)
            pick.add(w)
        conc = sorted(pick)
        order = list(names)
        rng.shuffle(order)
        self.names = dict(zip(order, conc))          # abstract -> concrete
        self.rank = {a: i + 1 for i, a in enumerate(order)}
        self.rev = {c: a for a, c in self.names.items()}
        self.bfs = {}
        self.metas = {}
        self.rng = rng

    def bf(self, tok):
        if tok not in self.bfs:
            if self.zero and 0 not in self.bfs.values() and self.rng.random() < 0.2:
                self.bfs[tok] = 0
            else:
                self.bfs[tok] = Fraction(1, PRIMES[len(self.bfs)])
        return self.bfs[tok]

    def meta(self, tok):
        if tok not in self.metas:
            md = copy.deepcopy(self.rng.choice(META_POOL))
            md["uid"] = len(self.metas)          # distinct tokens get distinguishable metadata
            self.metas[tok] = md
        return self.metas[tok]

    def rbf(self, x):
        for t, v in self.bfs.items():
            if v == x:
                return t
        return "?" + repr(x)

    def rmeta(self, md):
        md = {k: v for k, v in md.items()}
        for t, v in self.metas.items():
            full = {"model": "", "model_params": ""}
            full.update(v)
            if full.get("model_params") is None:
                full["model_params"] = ""
            if json.dumps(full, sort_keys=True, default=repr) == json.dumps(md, sort_keys=True, default=repr):
                return t
        return "?" + json.dumps(md, sort_keys=True, default=repr)

    def rname(self, c):
        return self.rev.get(c, "?" + str(c))


def norm_chain(c):
    """TLC emission (functions as JSON objects) -> trace form"""
    if isinstance(c["decays"], list):
        return c
    return {"mother": c["mother"],
            "decays": [{"n": n, "bf": d["bf"], "meta": d["meta"], "ds": sorted([k, v] for k, v in d["ds"].items())}
                       for n, d in sorted(c["decays"].items())]}


def chain_names(c):
    s = {c["mother"]}
    for d in c["decays"]:
        s.add(d["n"])
        s.update(k for k, _ in d["ds"])
    return sorted(s)


def daughters_list(cz, d, rng=None):
    out = []
    for k, n in d["ds"]:
        out += [cz.names[k]] * n
    if rng:
        rng.shuffle(out)
    return out


def build_chain(cz, c, order=None, rng=None, bf_float=False, zero_bf=None):
    """zero_bf: names of decaying particles whose mode gets the default branching fraction 0 (only where the value of
    the branching fraction plays no part: descriptors)"""
    from decaylanguage import DecayChain, DecayMode
    decs = {d["n"]: d for d in c["decays"]}
    order = order or [d["n"] for d in c["decays"]]
    modes = {}
    for n in order:
        d = decs[n]
        ds = daughters_list(cz, d, rng)
        form = rng.choice(["list", "str", "dict"]) if rng else "list"
        if form == "str":
            dd = " ".join(ds)
        elif form == "dict":
            dd = {}
            for x in ds:
                dd[x] = dd.get(x, 0) + 1
        else:
            dd = ds
        bf = cz.bf(d["bf"])
        if zero_bf and n in zero_bf:
            bf = zero_bf[n]
        modes[cz.names[n]] = DecayMode(float(bf) if bf_float and not (zero_bf and n in zero_bf) else bf, dd,
                                       **copy.deepcopy(cz.meta(d["meta"])))
    return DecayChain(cz.names[c["mother"]], modes)


def proj_entries(cz, mother_entries):
    out = []
    for e in mother_entries:
        fs = []
        for x in e["fs"]:
            if isinstance(x, str):
                fs.append({"n": cz.rname(x), "dec": False, "sub": []})
            else:
                (k, v), = x.items()
                fs.append({"n": cz.rname(k), "dec": True, "sub": proj_entries(cz, v)})
        md = {k: v for k, v in e.items() if k not in ("bf", "fs")}
        out.append({"bf": cz.rbf(e["bf"]), "meta": cz.rmeta(md), "fs": fs})
    return out


def proj_dict(cz, d):
    (m, entries), = d.items()
    return {"m": cz.rname(m), "entries": proj_entries(cz, entries)}


def proj_chain(cz, dc):
    decs = []
    for n, dm in dc.decays.items():
        ds = sorted([cz.rname(k), v] for k, v in dm.daughters.items() if v > 0)
        decs.append({"n": cz.rname(n), "bf": cz.rbf(dm.bf), "meta": cz.rmeta(dm.metadata), "ds": ds})
    return {"mother": cz.rname(dc.mother), "decays": decs}


def factorise(cz, x):
    """bag token -> exponent of a product of the prime-reciprocal bfs"""
    x = Fraction(x)
    if x.numerator != 1:
        return [["?numerator", x.numerator]]
    den = x.denominator
    out = []
    for t, v in cz.bfs.items():
        p = v.denominator
        e = 0
        while den % p == 0:
            den //= p
            e += 1
        if e:
            out.append([t, e])
    if den != 1:
        out.append(["?rest", den])
    return sorted(out)
