"""C13 - a decay descriptor string determines the decay tree it was made from."""
from __future__ import annotations

import json
import random

from . import tlc
from . import chainio as cio
from .c12 import flatten_universe, random_chain, shaped_chain, judge, record, selftest
from .core import Outcome, ensure_repo_on_path, finish, pmap
from .descriptor import parse_all

PROP = "C13"


def tree_json(t):
    if isinstance(t, str):
        return {"m": t, "leaf": True, "kids": []}
    m, ds = t
    return {"m": m, "leaf": False, "kids": [tree_json(d) for d in ds]}


def abstract_tree(cz, t):
    if isinstance(t, str):
        return cz.rname(t)
    m, ds = t
    return (cz.rname(m), tuple(abstract_tree(cz, d) for d in ds))


def build(args):
    cid, c, seed = args
    from decaylanguage.utils import DescriptorFormat
    import sys
    sys.setrecursionlimit(20000)        # the backtracking reader recurses per item and nesting level
    rng = random.Random(seed)
    c = cio.norm_chain(c)
    cz = cio.ChainCZ(rng, cio.chain_names(c))
    reads = []
    strings = set()
    raised = "-"
    # a descriptor does not depend on branching fractions: every third chain has modes with the default value 0 / 0.0
    zb = {d["n"]: rng.choice([0, 0.0]) for d in c["decays"] if rng.random() < 0.5} if cid % 3 == 0 else None
    try:
        # one chain object that is rendered again and again, under every pattern and in between
        shared = cio.build_chain(cz, c, rng=rng, zero_bf=zb)
        strings.add(("default", shared.to_string()))
        strings.add(("default", cio.build_chain(cz, c, rng=rng, zero_bf=zb).to_string()))
        for top, sub in cio.PATTERNS:
            order = [d["n"] for d in c["decays"]]
            rng.shuffle(order)
            dc = cio.build_chain(cz, c, order=order, rng=rng, zero_bf=zb)
            with DescriptorFormat(top, sub):
                s = dc.to_string()
                strings.add((top + " | " + sub, shared.to_string()))
                # the same string whatever order daughters and sub-decays were given in
                for _ in range(2):
                    o2 = order[:]
                    rng.shuffle(o2)
                    strings.add((top + " | " + sub, cio.build_chain(cz, c, order=o2, rng=rng, zero_bf=zb).to_string()))
                strings.add((top + " | " + sub, s))
            ps = parse_all(s, top, sub)
            tree = tree_json(abstract_tree(cz, ps[0])) if len(ps) == 1 else {"m": "?", "leaf": True, "kids": []}
            reads.append({"pat": top + " | " + sub, "string": s, "nparses": len(ps), "tree": tree})
        # a pattern pair that is refused (valid first pattern, invalid second one) leaves the format in force as it was
        for bad in (("{mother} ==> {daughters}", "({mother})"), ("{mother} ~> {daughters}", "<{mother} ~> {daughters} {x}>")):
            try:
                with DescriptorFormat(*bad):
                    pass
            except Exception:  # noqa: BLE001
                pass
        # the plain one-line descriptor (no format block active any more): round brackets, read back the same way
        top, sub = cio.PATTERNS[0]
        s = cio.build_chain(cz, c, rng=rng, zero_bf=zb).to_string()
        ps = parse_all(s, top, sub)
        tree = tree_json(abstract_tree(cz, ps[0])) if len(ps) == 1 else {"m": "?", "leaf": True, "kids": []}
        reads.append({"pat": "default, after the format blocks", "string": s, "nparses": len(ps), "tree": tree})
        strings.add(("default", s))
        strings.add(("default", shared.to_string()))
    except Exception as e:  # noqa: BLE001
        raised = repr(e)[:200]
        reads.append({"pat": "raised", "string": raised, "nparses": 0, "tree": {"m": "?", "leaf": True, "kids": []}})
    obs = {"reads": reads, "orders_same": len(strings) == len({t for t, _ in strings})}
    return {"prop": "C13", "cid": cid, "c": c, "obs": obs, "names": cz.names}


def corrupt(c):
    r = c["obs"]["reads"][0]
    if r["tree"]["kids"]:
        r["tree"]["kids"] = r["tree"]["kids"][1:] + [{"m": "zz", "leaf": True, "kids": []}]
        return True
    return False


def run(tier, seed, replay_path=None):
    ensure_repo_on_path()
    o = Outcome(PROP, tier, seed)
    rng = random.Random(seed)
    deep = tier == "thorough"
    wd = tlc.new_workdir("c13")
    try:
        emitted = flatten_universe(wd, o, 3, 3 if deep else 2, True, "Flatten universe (chains emitted; RoundTrip checked)")
        chains, seen = [], set()
        for e in emitted:
            k = json.dumps(e["c"], sort_keys=True)
            if k not in seen:
                seen.add(k)
                chains.append(e["c"])
        o.notes["universe_chains"] = len(chains)
        nwin = 20000 if deep else 1000
        if len(chains) > nwin:
            k = len(chains)
            off, step = seed % k, k // nwin
            chains = [chains[(off + i * step) % k] for i in range(nwin)]
        else:
            o.exhaustive = True
        chains += [random_chain(rng, 8 if i % 3 == 0 else 5) for i in range(3000 if deep else 300)]
        chains += [shaped_chain(rng, "wide" if i % 2 else "deep") for i in range(160 if deep else 24)]
        if replay_path:
            chains = [json.load(open(replay_path))["case"]["c"]]
        cases = pmap(build, [(i, c, seed * 5 + i) for i, c in enumerate(chains)])
        rej = judge(cases, wd, o, "judge read-back descriptors against TreeOf (ChainTrace)")
        record(o, cases, rej)
        selftest(o, cases, rej, wd, corrupt, tier, seed)
        o.notes["pattern_families"] = len(cio.PATTERNS)
        for c in cases[-2:]:
            o.sample({"names": c["names"], "strings": [r["string"] for r in c["obs"]["reads"][:3]]})
        o.rule = ("chains of the Flatten universe and random chains with repeated decaying daughters, names drawn from real "
                  "spellings with parentheses, quotes and signs; each rendered under 6 pattern pairs in shuffled input orders and "
                  "read back by bracket matching (all parses enumerated, exactly one demanded); distinct = distinct chains")
        o.assumptions = ["names are balanced in parentheses and do not start with an opening bracket (WF_C13)"]
    finally:
        tlc.cleanup(wd)
    return finish(o)
