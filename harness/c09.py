"""C09 - decay chains are the faithful recursive unfolding of the decay tables."""
from __future__ import annotations

import itertools
import random

from . import tlc, decfam, decquery
from .core import Outcome, ensure_repo_on_path, finish, pmap, Machinery
from .c03 import window

PROP = "C09"
NAMES = ["A", "B", "C", "x", "y"]


def corrupt(c):
    for e in c["res"]["entries"]:
        for k in e["fs"]:
            if k["dec"]:
                k["dec"] = False
                k["sub"] = []
                return True
    return False


def flatten(lists):
    return [c for l in lists for c in l]


def shipped_specs(rng, deep, o):
    masters, tests = decquery.shipped_files()
    specs = []
    nmax = 2000 if deep else 400
    for path in masters + tests:
        p = decquery.shipped_parser(path)
        mothers = p.list_decay_mother_names()
        tabs = decquery.obs_tables(p, mothers)
        elig = []
        for m in mothers:
            n, _ = decquery.unfold_size(tabs, m, cap=10**6)
            if n is not None and n <= nmax:
                elig.append(m)
        o.notes.setdefault("shipped_mothers_eligible", {})[path.split("/")[-1]] = f"{len(elig)} of {len(mothers)}"
        if not deep and path in masters:
            rng.shuffle(elig)
            elig = elig[:60]
        tmap = {t["m"]: t for t in tabs}
        for m in elig:
            ds = sorted({d for ln in tmap[m]["lines"] for d in ln["ds"]})
            clos = decquery.closure(p, m)
            Ss = [[], ds]
            if ds:
                Ss.append([rng.choice(ds)])
            if clos:
                Ss.append(rng.sample(clos, min(len(clos), rng.randint(1, 3))))
            if deep:
                for _ in range(4):
                    pool = sorted(set(ds) | set(clos))
                    Ss.append(rng.sample(pool, rng.randint(0, min(len(pool), 5))))
            for S in Ss:
                specs.append((PROP, len(specs), path, m, S))
        specs.append((PROP, len(specs), path, "no-such-particle", []))
    return specs


def split_raised(o, cases):
    """a chain query that raises anything but the documented not-found error is a violation by itself (and has no
    observation of the shape the judge reads)"""
    keep = []
    for c in cases:
        marks = [e["bf"] for e in c["res"]["entries"] if isinstance(e.get("bf"), str) and e["bf"].startswith(("?raised", "?tables-raised"))]
        if marks:
            o.violate("C09:chain-query-answers-or-raises-the-documented-not-found-error", {"m": c["m"], "S": c["S"], "src": c.get("asrc")},
                      {"raised": marks[0], "text": c.get("text") or c.get("file")})
        else:
            keep.append(c)
    return keep


def run(tier, seed, replay_path=None):
    ensure_repo_on_path()
    o = Outcome(PROP, tier, seed)
    rng = random.Random(seed)
    deep = tier == "thorough"
    wd = tlc.new_workdir("c09")
    try:
        # one TLC run: every file of the fixed-layout universe, lemmas on the unfolding operators checked on the way
        cfg = tlc.cfg_text(constants=dict(Profile="C10", MaxStmts=0, MaxLines=2, DoEmit=True, Build=False),
                           invariants=["MachineIsParsed", "C09_Lemmas", "C10_Count"])
        r = tlc.run("DecGen", cfg, workdir=wd)
        o.add_tlc(r, "DecGen C10 universe (alias subsets x blocks for A, B, C): C09_Lemmas, C10_Count; files emitted")
        if r.violated:
            o.violate("spec-invariant", {"violated": r.violated}, r.stdout_path)
        files = [x["v"] for x in r.by_tag("case")]
        if deep:
            files += decfam.tlc_files("C09", 3, 2, wd, o, check=False, what="DecGen C09 universe (sequences of <= 3 statements)")
        decfam.reachability("C09", "NeverNested", wd, o)
        sim = decfam.tlc_files("C09", 6, 2, wd, o, check=False, simulate=1000 if deep else 100, seed=seed)
        files = [f for f in files if any(s["k"] == "Decay" and s["lines"] for s in f["src"])]
        o.notes["universe_files"] = len(files)
        files = window(files, 20000 if deep else 500, seed, o, "exhaustive") + sim
        subsets = [list(c) for k in range(0, 4) for c in itertools.combinations(["B", "C", "x"], k)]
        args = []
        for i, f in enumerate(files):
            qs = []
            for m in ["A", "B", "C", "y"]:
                for S in (subsets if deep else rng.sample(subsets, 3)):
                    qs.append((m, S))
            args.append((PROP, i, f["src"], seed * 7919 + i, qs))
        # ladders of 5..30 nested tables: deeper than anything the enumerated universe or a bounded shipped mother holds
        ladders = [(PROP, f"ladder{j}", rng.randint(5, 30), seed * 401 + j) for j in range(300 if deep else 30)]
        cases = split_raised(o, flatten(pmap(decquery.build_generated, args)) + flatten(pmap(decquery.build_ladder, ladders)))
        rej = decfam.judge(cases, wd, o, "judge chains of TLC-generated table sets (DecTrace/DecQuery)")
        record(o, cases, rej)
        # C -> S on the shipped files
        specs = shipped_specs(rng, deep, o)
        cases2 = split_raised(o, pmap(decquery.build_shipped, specs, chunk=8))
        rej2 = decfam.judge(cases2, wd, o, "judge chains of the shipped .dec files (DecTrace/DecQuery)")
        record(o, cases2, rej2)
        o.notes["generated_cases"] = len(cases)
        o.notes["shipped_cases"] = len(cases2)
        for c in cases2[:1] + cases[:2]:
            o.sample({"file": c.get("file") or c.get("text"), "m": c["m"], "S": c["S"], "entries": len(c["res"]["entries"])})
        decfam.selftest_binding(PROP, [c for i, c in enumerate(cases) if i not in rej], wd, o, corrupt)
        o.rule = ("(table set, mother, stable set) triples: acyclic table sets of the TLC universe DecGen/C09 and of the shipped "
                  ".dec files (mothers whose unfolding stays below the node bound); distinct = distinct triples")
        o.assumptions = ["table sets are acyclic (checked by TLC on every case)",
                         "chains are judged against the tables the parser itself reports (C01 judges those)"]
    finally:
        tlc.cleanup(wd)
    return finish(o)


def record(o, cases, rejected):
    import json
    for c in cases:
        o.traces += 1
        o.evaluations += 1
        o.nontrivial.add(json.dumps([c.get("file"), c.get("asrc"), c["m"], c.get("S")], sort_keys=True))
    for i, fl in rejected.items():
        c = cases[i]
        o.violate(fl[0]["clause"], {"file": c.get("file"), "asrc": c.get("asrc"), "m": c["m"], "S": c.get("S")},
                  {"clauses": [f["clause"] for f in fl], "diag": fl[0].get("diag"), "text": c.get("text"),
                   "descriptors": c.get("descriptors")})
