"""C20 - conversion output depends only on the input file."""
from __future__ import annotations

import json
import os
import random
import subprocess
import sys
import tempfile
from pathlib import Path

from . import tlc
from .core import Outcome, ensure_repo_on_path, finish, pmap, Machinery, ROOT

PROP = "C20"
TEXTS = {
    "fA": """EventType D0 K- pi+ pi+ pi-
D0{K*(892)bar0{K-,pi+},rho(770)0{pi+,pi-}}   0 0.196037 0.0012135   0 -0.390311 0.00629977
D0[D]{K*(892)bar0{K-,pi+},rho(770)0{pi+,pi-}}   2 1 0   2 0 0
D0_radius   2   0.0037559   0
""",
    "fB": """EventType D0 K- pi+ pi+ pi-
FastCoherentSum::UseCartesian 1
D0{a(1)(1260)+{rho(770)0{pi+,pi-},pi+},K-}   0 0.813449 0.00586375   0 -2.60325 0.00790284
D0{a(1)(1260)+[D]{rho(770)0{pi+,pi-},pi+},K-}   0 0.5 0.01   2 0.25 0
D0::radius   2   0.0041   0
""",
    "fC": """EventType D0 K- pi+ pi+ pi-
FastCoherentSum::UseCartesian 0
D0{K(1)(1270)bar-,pi+}   0 0.361958 0.00377983   0 1.99329 0.0132565
K(1)(1270)bar-{KPi00{K-,pi+},pi-}   2 1 0   2 0 0
K(1)(1270)bar-{PiPi00{pi+,pi-},K-}   0 2.01551 0.0260671   0 -2.08574 0.0149467
somePar   0   1.5   0.1
""",
    "fD": """EventType D0 K- pi+ pi+ pi-
D0{K*(892)bar0{K-,pi+},rho(1450)0{pi+,pi-}}   0 0.642781 0.00570074   0 1.69828 0.00900026
D0{a(1)(1260)+{omega(782)0{pi+,pi-},pi+},K-}   0 0.3 0.01   0 0.2 0.01
a(1)(1260)+_mass   0 1195.05 1.05
a(1)(1260)+_width   0 422.013 2.1
""",
    # rejected: the option is applied, then a resonance name unknown to the particle table is met
    "fE": """EventType D0 K- pi+ pi+ pi-
FastCoherentSum::UseCartesian 1
D0{K*(892)bar0{K-,pi+},rho(707)0{pi+,pi-}}   0 0.3 0.01   0 1.1 0.01
""",
    # the amplitudes of fA under an event type that lists the same final-state particles in another order
    "fG": """EventType D0 pi+ pi- K- pi+
D0{K*(892)bar0{K-,pi+},rho(770)0{pi+,pi-}}   0 0.196037 0.0012135   0 -0.390311 0.00629977
D0[D]{K*(892)bar0{K-,pi+},rho(770)0{pi+,pi-}}   2 1 0   2 0 0
""",
    # names K(1460), whose mass and width the special particle table overrides, and no pseudo-particle
    "fF": """EventType D0 K- pi+ pi+ pi-
D0{K(1460)bar-{K*(892)bar0{K-,pi+},pi-},pi+}   0 0.122 0.011   0 1.84 0.02
""",
    # amplitudes whose full names are longer than any of the shipped model (73 and 76 characters), with the splined and
    # K-matrix lineshapes and the parameter lines those need
    "fH": """EventType D0 K- pi+ pi+ pi-
D0{K(1)(1270)bar-[D;GSpline.EFF]{K*(892)bar0[FOCUS.I32]{K-,pi+},pi-},pi+}   0 0.322109 0.011   0 0.561924 0.02
D0{a(1)(1260)+[D;kMatrix.pole.0]{rho(770)0[kMatrix.pole.1]{pi+,pi-},pi+},K-}   0 0.25 0.01   0 -1.5 0.01
K(1)(1270)bar-::Spline::Min 0.6
K(1)(1270)bar-::Spline::Max 3.0
K(1)(1270)bar-::Spline::N 4
K(1)(1270)bar-::Spline::Gamma::0   0   0.0010008403   0
K(1)(1270)bar-::Spline::Gamma::1   0   0.0020006490   0.000100001234
K(1)(1270)bar-::Spline::Gamma::2   0   0.0030001132   0
K(1)(1270)bar-::Spline::Gamma::3   2   0.0040008684   0.000100001234
f_scatt0   0   0.100000014   0.0100000123
f_scatt1   0   0.200000073   0.0100000123
f_scatt2   2   0.300000016   0.0100000123
f_scatt3   2   0.400000013   0.0100000123
f_scatt4   2   0.500000028   0.0100000123
""" + "".join(f"IS_p{i}_{ch}   2   {(i - 1) / 10 + k / 100:.4f}   0\n" for i in range(1, 6)
              for k, ch in ((4, "pipi"), (2, "KK"), (3, "4pi"), (6, "EtaEta"), (7, "EtapEta"), (4, "mass")))
          + "s0_prod   2   -0.07   0\ns0_scatt   2   -3.92637   0\nsA   2   1.0   0\nsA0   2   -0.15   0\n",
}


# abstract resonance names of AmpSession.tla -> (AmpGen name, PDG id); first mother line numbers of each file
RES = {"r1": ("K*(892)bar0", -313), "r2": ("rho(770)0", 113), "r3": ("a(1)(1260)+", 20213), "r4": ("K(1)(1270)bar-", -10323),
       "r5": ("rho(1450)0", 100113), "r6": ("KPi00", 998111), "r7": ("PiPi00", 998101), "r8": ("omega(782)0", 223), "r9": ("K(1460)bar-", -100321)}
FIRST = {"fA": (0.196037, -0.390311), "fB": (0.813449, -2.60325), "fC": (0.361958, 1.99329), "fD": (0.642781, 1.69828), "fE": (0.3, 1.1), "fF": (0.122, 1.84), "fG": (0.196037, -0.390311),
         "fH": (0.322109, 0.561924)}


def prog_names():
    """programmatic names of the resonances, from the particle package (reference data)"""
    from particle import Particle
    from . import ampio
    # the special particles are loaded by the reader on first use; load them here for the reference look-up
    import decaylanguage.data as data
    if 998100 not in Particle.all() and 998101 not in {int(p.pdgid) for p in Particle.all()}:
        Particle.load_table(str(data.basepath / "MintDalitzSpecialParticles.csv"), append=True)
    global MASSES
    MASSES = {r: Particle.from_pdgid(i).mass for r, (_, i) in RES.items()}
    return {Particle.from_pdgid(i).programmatic_name: r for r, (_, i) in RES.items()}


MASSES = {}


def project(cls, f, res, pn):
    """-> event of AmpSession trace mode"""
    import cmath
    import re
    ev = {"cls": cls, "f": f, "declared": ["n/a"], "coupling": "n/a", "rejected": res["kind"] == "error", "table": "n/a",
          "masses": []}
    if res["kind"] == "text":
        # where the mass of each resonance variable comes from: the particle table, or somewhere else
        for name, val in re.findall(r'"(\w+)_M"\s*,\s*([-+0-9.eE]+)', res["text"]):
            r = pn.get(name)
            if r and MASSES.get(r):
                ev["masses"].append([r, "table" if abs(float(val) - MASSES[r]) <= 1e-6 * MASSES[r] else "earlier-file"])
    if f == "fF" and res["kind"] == "text":
        # the mass the output gives K(1460): 1482.4 is the special table's value (the plain table has none)
        import re as _re
        mm = _re.search(r'"K_1460_minus_M"\s*,\s*([-+0-9.eEnoN]+)', res["text"])
        ev["table"] = "special" if mm and mm.group(1).startswith("1482.4") else "plain"
    a, b = FIRST[f]
    amp = None
    if res["kind"] == "read":
        amp = complex(res["lines"][0][1]) if res["lines"] else None
        tol = 1e-9
    elif res["kind"] == "text":
        decl = re.findall(r"^\s*(?:Variable )?(\w+)_M\s*(?:\{|= Variable\()", res["text"], re.M)
        ev["declared"] = sorted({pn.get(d, "?" + d) for d in decl})
        m = re.search(r'(?:mkvar|Variable)\("[^"]*_r", (?:true, |false, )?([-+0-9.eE]+)', res["text"])
        m2 = re.search(r'(?:mkvar|Variable)\("[^"]*_i", (?:true, |false, )?([-+0-9.eE]+)', res["text"])
        if m and m2:
            amp = complex(float(m.group(1)), float(m2.group(1)))
        tol = 2e-5
    else:
        return ev
    if amp is not None:
        fits = []
        if abs(amp - cmath.rect(a, b)) <= tol * max(1, abs(a)):
            fits.append("F")
        if abs(amp - complex(a, b)) <= tol * max(1, abs(a)):
            fits.append("T")
        ev["coupling"] = fits[0] if len(fits) == 1 else "?" + "".join(fits)
    return ev


def child(args):
    calls, hashseed = args
    env = dict(os.environ, PYTHONHASHSEED=str(hashseed), PYTHONPATH=str(ROOT))
    env.pop("DECAYLANGUAGE_VERIF", None)
    r = subprocess.run([sys.executable, "-m", "harness.c20_child", json.dumps(calls)], capture_output=True, text=True, env=env,
                       cwd=str(ROOT), timeout=1700)
    for line in r.stdout.splitlines():
        if line.startswith("@@RESULT@@"):
            return json.loads(line[len("@@RESULT@@"):])
    raise Machinery(f"C20 child failed rc={r.returncode}: {r.stderr[-500:]}")


def canon(res):
    """observable result ignoring the relative order of mutually independent declarations"""
    if res["kind"] == "text":
        return {"kind": "text", "lines": sorted(res["text"].splitlines())}
    return {k: v for k, v in res.items() if k != "stdout"}


def run(tier, seed, replay_path=None):
    ensure_repo_on_path()
    o = Outcome(PROP, tier, seed)
    rng = random.Random(seed)
    deep = tier == "thorough"
    wd = tlc.new_workdir("c20")
    tmp = Path(tempfile.mkdtemp(prefix="c20-", dir=wd))
    try:
        for v, expect in (("per_read", False), ("accumulating", True), ("no_restore_when_rejected", True), ("table_on_demand", True), ("params_into_particles", True), ("index_memo", True)):
            r = tlc.run("AmpSession", tlc.cfg_text(constants=dict(Variant=v, MaxLen=4, EmitMode="none"),
                                                   invariants=["HistoryIndependent"], view="AbsView"), workdir=wd, keep_records=False)
            o.add_tlc(r, f"AmpSession variant {v}: HistoryIndependent over all histories of <= 4 calls (3 classes x 8 files)",
                      expect_violation=expect)
            if expect and "HistoryIndependent" not in r.violated:
                raise Machinery(f"variant {v} not refuted")
            if not expect and r.violated:
                o.violate("spec-invariant", {"violated": r.violated}, r.stdout_path)
        rr = tlc.run("AmpSession", tlc.cfg_text(constants=dict(Variant="per_read", MaxLen=2, EmitMode="none"), invariants=["NeverOverlap"]),
                     workdir=wd, keep_records=False)
        o.add_tlc(rr, "reachability companion NeverOverlap", expect_violation=True)
        if "NeverOverlap" not in rr.violated:
            raise Machinery("NeverOverlap not violated")
        r = tlc.run("AmpSession", tlc.cfg_text(constants=dict(Variant="per_read", MaxLen=3, EmitMode="paths")), workdir=wd)
        o.add_tlc(r, "emit every history of 3 calls")
        hists = [[(s["cls"], s["f"]) for s in x["v"]] for x in r.by_tag("hist")]
        r2 = tlc.run("AmpSession", tlc.cfg_text(constants=dict(Variant="per_read", MaxLen=2, EmitMode="paths")), workdir=wd)
        o.add_tlc(r2, "emit every history of 2 calls")
        hists2 = [[(s["cls"], s["f"]) for s in x["v"]] for x in r2.by_tag("hist")]
        o.notes["histories_emitted"] = len(hists) + len(hists2)
        paths = {}
        for k, t in TEXTS.items():
            p = tmp / f"{k}.txt"
            p.write_text(t)
            paths[k] = str(p)
        nh = 160 if deep else 14
        # histories that put a cartesian file / overlapping resonances before another file first
        chosen = rng.sample(hists2, min(len(hists2), nh // 2)) + rng.sample(hists, min(len(hists), nh - nh // 2))
        # always among them: a file that sets the option (fB) or sets it and is rejected (fE), followed by a file without it
        cl = ["base", "cpp", "py"]
        c1, c2, c3 = rng.choice(cl), rng.choice(cl[1:]), rng.choice(cl)
        chosen += [[("base", "fE"), (c1, "fA")], [(c2, "fE"), (c2, "fD")], [(c3, "fB"), (c3, "fA")], [(c2, "fE"), (c2, "fB"), (c2, "fA")]]
        # ... and a file that needs the special particle table before one whose particle parameters that table overrides
        chosen += [[(c3, "fC"), (c2, "fF")], [(c1, "fA"), (c2, "fF")]]
        # ... and a file carrying <name>_mass / _width parameters before another file with the same resonance
        chosen += [[(c1, "fD"), (c2, "fB")]]
        # ... and the same amplitudes under two orders of the event type (conversions: the index lists are in the text)
        c4 = rng.choice(cl[1:])
        chosen += [[(c2, "fA"), (c2, "fG")], [(c4, "fG"), (c2, "fA")]]
        # ... and the file with the longest amplitude names, first and second, by both converters
        chosen += [[("cpp", "fH"), (c4, "fD")], [(c1, "fB"), ("py", "fH")]]
        if replay_path:
            chosen = [[tuple(x) for x in json.load(open(replay_path))["case"]["history"]]]
        seeds = list(range(8 if deep else 3))
        # the form in which a call hands the options over: a file name (the converters take nothing else) or, for one
        # later call in three of the sampled histories, the text itself (read_ampgen(text=...))
        n_sampled = min(len(hists2), nh // 2) + min(len(hists), nh - nh // 2)
        hows = [["text" if (hi < n_sampled and j > 0 and (hi + j) % 3 == 0) else "file" for j in range(len(h))]
                for hi, h in enumerate(chosen)]
        if replay_path:
            hows = [json.load(open(replay_path))["case"].get("hows") or ["file"] * len(chosen[0])]
        singles = sorted({(cls, f, hw) for h, hwl in zip(chosen, hows) for (cls, f), hw in zip(h, hwl)})
        base_args = [([[cls, paths[f], hw]], hs) for (cls, f, hw) in singles for hs in (seeds if hw == "file" else seeds[:2])]
        hist_args = [([[cls, paths[f], hw] for (cls, f), hw in zip(h, hwl)], 0) for h, hwl in zip(chosen, hows)]
        # the same history once more in another fresh process: must reproduce the text exactly
        again = hist_args[: (20 if deep else 3)]
        results = pmap(child, base_args + hist_args + again, chunk=1, limit=1700)
        base = {}
        for (calls, hs), res in zip(base_args, results[: len(base_args)]):
            base[(calls[0][0], Path(calls[0][1]).stem, calls[0][2], hs)] = res[0]
        hres = results[len(base_args): len(base_args) + len(hist_args)]
        ares = results[len(base_args) + len(hist_args):]
        # hash-seed independence of a single call in a fresh interpreter
        for (cls, f, hw) in singles:
            ref = canon(base[(cls, f, hw, 0)])
            o.traces += 1
            for hs in (seeds[1:] if hw == "file" else seeds[1:2]):
                o.evaluations += 1
                if canon(base[(cls, f, hw, hs)]) != ref:
                    o.violate("C20:output-independent-of-the-hash-seed", {"history": [[cls, f]], "hows": [hw], "hashseed": hs},
                              {"diff": _diff(ref, canon(base[(cls, f, hw, hs)]))})
        # history independence
        for h, hwl, res in zip(chosen, hows, hres):
            o.traces += 1
            o.nontrivial.add(json.dumps([h, hwl]))
            for i, ((cls, f), hw, got) in enumerate(zip(h, hwl, res)):
                o.evaluations += 1
                if canon(got) != canon(base[(cls, f, hw, 0)]):
                    o.violate("C20:same-result-whatever-was-read-or-converted-before",
                              {"history": [list(x) for x in h[: i + 1]], "hows": hwl[: i + 1]},
                              {"call": [cls, f, hw], "diff": _diff(canon(base[(cls, f, hw, 0)]), canon(got))})
                    break
        # the recorded histories as traces of AmpSession.tla (declared resonance variables, coupling kind)
        pn = prog_names()
        traces = [[project(cls, f, res, pn) for (cls, f), res in zip(h, rs)] for h, rs in zip(chosen, hres)]
        tf = wd / "sessions.json"
        tf.write_text(json.dumps(traces))
        rt = tlc.run("AmpSession", tlc.cfg_text(constants=dict(Variant="per_read", MaxLen=0, EmitMode="trace")), workdir=wd,
                     env={"TRACE_FILE": str(tf)})
        o.add_tlc(rt, "validate the recorded histories against AmpSession (trace mode)")
        acc = {x["tid"] for x in rt.by_tag("ACCEPT")}
        rejt = {x["tid"] for x in rt.by_tag("REJECT")}
        if acc | rejt != set(range(1, len(traces) + 1)) or acc & rejt:
            raise Machinery(f"trace verdicts not total ({rt.stdout_path})")
        for x in rt.by_tag("FAIL"):
            h = chosen[x["tid"] - 1]
            o.violate(x["clause"], {"history": [list(c) for c in h]}, {"diag": x.get("diag"), "trace": traces[x["tid"] - 1]})
        o.notes["session_traces_validated"] = len(traces)
        for (calls, _), r1, r2_ in zip(again, hres, ares):
            o.traces += 1
            if r1 != r2_:
                o.violate("C20:same-history-in-a-fresh-process-reproduces-the-text-exactly",
                          {"history": [[x[0], Path(x[1]).stem] for x in calls], "hows": [x[2] for x in calls]}, {})
        o.notes.update(histories_run=len(chosen), single_calls=len(singles), hash_seeds=seeds, fresh_interpreters=len(results))
        o.sample({"history": [list(x) for x in chosen[0]], "files": TEXTS})
        o.rule = ("histories of 2 and 3 read/convert calls (3 reader classes x 8 files with disjoint / overlapping resonances, the "
                  "cartesian option absent / 0 / 1, one file that is rejected after its option was applied, one whose particle parameters the special table overrides) emitted by TLC from AmpSession.tla, a sample executed each in its own fresh "
                  "interpreter; every call's result compared with the same single call in a fresh interpreter; single calls "
                  "repeated under several PYTHONHASHSEED values; a subset of histories run twice for exact reproduction; "
                  "distinct = distinct histories")
        o.assumptions = ["results are compared as sorted line multisets (texts) / structured values (reads): the relative order of "
                         "mutually independent declarations is ignored, the timestamp line dropped"]
    finally:
        tlc.cleanup(wd)
    return finish(o)


def _diff(a, b):
    if a.get("kind") == "text" and b.get("kind") == "text":
        sa, sb = a["lines"], b["lines"]
        return {"only_fresh": [x for x in sa if x not in sb][:8], "only_history": [x for x in sb if x not in sa][:8]}
    return {"fresh": json.dumps(a)[:600], "history": json.dumps(b)[:600]}
