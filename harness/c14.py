"""C14 - descriptor format settings are scoped and validated.

spec/Descriptor.tla is the stack machine; TLC checks RestoresEntry /
InvalidInert on it, enumerates behaviours (every transition of the abstract
state graph through a shortest path; every path up to a length; random long
walks) and each behaviour is replayed with real `with` blocks, comparing
DescriptorFormat.config and a rendered descriptor after every step.
"""
from __future__ import annotations

import random

from . import tlc
from .core import Outcome, ensure_repo_on_path, finish, Machinery
from .descriptor import parse_all, canon

PROP = "C14"

DEFAULT = ("{mother} -> {daughters}", "({mother} -> {daughters})")
VALID_POOL = [
    ("{mother} --> {daughters}", "[{mother} --> {daughters}]"),
    ("{mother} => {daughters}", "{mother} (=> {daughters})"),
    ("{daughters} <- {mother}", "<{daughters} <- {mother}>"),
    ("{mother} -> {daughters}", "[{mother} -> {daughters}]"),
    ("{mother}: {daughters}", "<{mother}: {daughters}>"),
    ("{mother} decays to {daughters}", "({mother} decays to {daughters})"),
    ("{mother!s} -> {daughters!s}", "({mother} -> {daughters})"),
    ("[{mother} -> {daughters}]", "[{mother} -> {daughters}]"),
    ("{mother} -> {daughters}", "{{{mother} -> {daughters}}}"),         # literal braces around sub-decays
    ("{{top}} {mother} -> {daughters:s}", "({mother} -> {daughters})"),  # literal text in braces, a format spec
]
INVALID_POOL = [
    ("{mother} -> ", "({mother} -> {daughters})"),
    ("{mother} -> {daughters}", "({mother} -> )"),
    (" -> {daughters}", "({mother} -> {daughters})"),
    ("{mother} -> {daughters}", "( -> {daughters})"),
    ("{mother} -> {daughters} {extra}", "({mother} -> {daughters})"),
    ("{mother} -> {daughters}", "({mother} -> {daughters} {extra})"),
    ("{} -> {daughters}", "({mother} -> {daughters})"),
    ("{mother} -> {daughters}", "({mother} -> {daughters} {0})"),
    ("{mum} -> {daughters}", "({mum} -> {daughters})"),
    ("no placeholders", "none either"),
    ("{daughters}", "{daughters}"),
    ("{mother.name} -> {daughters}", "({mother} -> {daughters})"),
    # both placeholders *and* an anonymous (auto-numbered) field: "contains any other"
    ("{mother} -> {daughters}{}", "({mother} -> {daughters})"),
    ("{mother} -> {daughters}", "({mother} -> {daughters}{!r})"),
    ("{mother} -> {daughters}{:>4}", "({mother} -> {daughters})"),
    ("{mother} -> {daughters}", "({}{mother} -> {daughters})"),
    # doubled braces are literal text, not a placeholder; a lone brace is no pattern at all
    ("{{mother}} => {daughters}", "[{mother} => {daughters}]"),
    ("{mother} => {daughters}", "[{mother} => {{daughters}}]"),
    ("{mother} -> {daughters} }", "({mother} -> {daughters})"),
    ("{mother} -> {daughters}", "({mother} -> { {daughters})"),
    # the placeholder's *name* as literal text is not the placeholder
    ("mother -> {daughters}", "({mother} -> {daughters})"),
    ("{mother} -> {daughters}", "({mother} and its daughters)"),
    ("[grandmother -> {daughters}]", "({mother} -> {daughters})"),
    ("", ""),
]
TREE = ("D*+", (("D0", (("K_S0", ("pi+", "pi-")), ("pi0", ("gamma", "gamma")))), "pi+"))


class _Boom(Exception):
    pass


def concretise(beh, rng):
    """Injective map from the behaviour's abstract pattern ids to concrete pairs."""
    ids = sorted({x for st in beh for x in (st["x"] + [st["cfg"]]) if x[:1] in "vi" and x[1:].isdigit()})
    m = {"v0": DEFAULT}
    vp = VALID_POOL[:]
    ip = INVALID_POOL[:]
    rng.shuffle(vp)
    rng.shuffle(ip)
    for i in ids:
        if i == "v0":
            continue
        m[i] = vp.pop() if i[0] == "v" else ip.pop()
    return m


def replay(beh, pats):
    """Drive the real DescriptorFormat along `beh`; return list of (clause, step index, detail)."""
    from decaylanguage import DecayChain, DecayMode
    from decaylanguage.utils import DescriptorFormat

    dc = DecayChain("D*+", {"D*+": DecayMode(0.677, "D0 pi+"), "D0": DecayMode(0.0124, "K_S0 pi0"),
                            "K_S0": DecayMode(0.692, "pi+ pi-"), "pi0": DecayMode(0.98823, "gamma gamma")})
    DescriptorFormat.config = {"decay_pattern": DEFAULT[0], "sub_decay_pattern": DEFAULT[1]}
    objs = {}
    bad = []

    def cfg_now():
        c = DescriptorFormat.config
        return (c.get("decay_pattern"), c.get("sub_decay_pattern"))

    def check(i):
        want = pats[beh[i]["cfg"]]
        got = cfg_now()
        if got != want:
            bad.append((f"config-after-{beh[i]['a']}-{beh[i]['out']}", i, {"expected": want, "observed": got}))

    def run(i):
        """returns (index of the Exit step that closes the enclosing block | None, kind)"""
        while i < len(beh):
            st = beh[i]
            a = st["a"]
            if a == "Create":
                pp = pats[st["x"][1]]
                # positional or keyword arguments, in either order
                # ... and now and then through a subclass (a "preset" class is still a descriptor-format context)
                if i % 5 == 4:
                    class Preset(DescriptorFormat):
                        def __init__(self):
                            super().__init__(pp[0], pp[1])
                    objs[st["x"][0]] = Preset()
                else:
                    objs[st["x"][0]] = (DescriptorFormat(*pp) if i % 3 else
                                        DescriptorFormat(sub_decay_pattern=pp[1], decay_pattern=pp[0]))
                check(i)
            elif a == "Set":
                try:
                    pp = pats[st["x"][0]]
                    if i % 3:
                        DescriptorFormat.set_config(*pp)
                    else:
                        DescriptorFormat.set_config(sub_decay_pattern=pp[1], decay_pattern=pp[0])
                    raised = False
                except Exception:
                    raised = True
                if raised != (st["out"] == "error"):
                    bad.append(("set-accept-reject", i, {"pattern": pats[st["x"][0]], "raised": raised}))
                check(i)
            elif a == "Render":
                top, sub = pats[st["cfg"]]
                try:
                    s = dc.to_string()
                    trees = parse_all(s, top, sub)
                except Exception as e:  # noqa: BLE001   (rendering under the format in force must work)
                    s, trees = f"<raised {type(e).__name__}: {e}>", []
                if len(trees) != 1 or canon(trees[0]) != canon(TREE):
                    bad.append(("render-uses-format-in-force", i, {"string": s, "patterns": (top, sub)}))
                check(i)
            elif a == "Enter" and st["out"] == "error":
                entered = False
                raised = False
                try:
                    with objs[st["x"][0]]:
                        entered = True
                except Exception:
                    raised = True
                if entered or not raised:
                    bad.append(("enter-invalid-rejected", i, {"entered": entered, "raised": raised}))
                check(i)
            elif a == "Enter":
                j = kind = None
                swallowed = False
                try:
                    with objs[st["x"][0]]:
                        check(i)
                        j, kind = run(i + 1)
                        if kind == "exception":
                            raise _Boom
                    swallowed = kind == "exception"
                except _Boom:
                    pass
                if j is None:
                    return None, None     # behaviour ended inside the block
                if swallowed:
                    bad.append(("exception-propagates", j, {}))
                check(j)
                i = j
            elif a == "Exit":
                return i, st["x"][1]
            else:
                raise Machinery(f"unknown action {a}")
            i += 1
        return None, None

    try:
        run(0)
    finally:
        DescriptorFormat.config = {"decay_pattern": DEFAULT[0], "sub_decay_pattern": DEFAULT[1]}
    return bad


CONSTS = dict(NCtx=2, Valid={"v0", "v1", "v2"}, Invalid={"i1", "i2"}, MaxDepth=3)


def _cfg(variant, mode, maxlen, *, view, props=True, invs=("TypeOK", "NeverInvalid", "Balanced"), ncx=2, maxdepth=None):
    c = dict(CONSTS, NCtx=ncx, Variant=variant, EmitMode=mode, MaxLen=maxlen)
    if maxdepth:
        c["MaxDepth"] = maxdepth
    return tlc.cfg_text(constants=c, invariants=invs,
                        properties=(props if isinstance(props, tuple) else ("RestoresEntry", "InvalidInert")) if props else (),
                        view="AbsView" if view else None)


def run(tier: str, seed: int, replay_path: str | None = None) -> int:
    ensure_repo_on_path()
    o = Outcome(PROP, tier, seed)
    rng = random.Random(seed)
    wd = tlc.new_workdir("c14")
    try:
        deep = tier == "thorough"
        # 1. the design satisfies the property (exhaustive over the abstract state graph)
        r = tlc.run("Descriptor", _cfg("per_entry_stack", "none", 9 if deep else 7, view=True), workdir=wd,
                    keep_records=False)
        o.add_tlc(r, "model check per_entry_stack: TypeOK NeverInvalid Balanced RestoresEntry InvalidInert")
        if not r.ok:
            o.violate("spec-invariant", {"violated": r.violated}, r.stdout_path)
        # 2. vacuity guards: the designs the property forbids are refuted, antecedents are reachable
        for variant in ("saved_at_init", "slot_at_enter"):
            # (only the property that is to be refuted: what TLC reports first among several violated ones is not fixed)
            r = tlc.run("Descriptor", _cfg(variant, "none", 6, view=True, props=("RestoresEntry",), invs=()), workdir=wd,
                        keep_records=False)
            o.add_tlc(r, f"refute {variant}", expect_violation=True)
            if "RestoresEntry" not in r.violated:
                raise Machinery(f"RestoresEntry does not refute variant {variant}: vacuous property")
        for inv in ("NoNestedReentry", "NoSetInsideBlock"):
            r = tlc.run("Descriptor", _cfg("per_entry_stack", "none", 6, view=True, props=False, invs=(inv,)),
                        workdir=wd, keep_records=False)
            o.add_tlc(r, f"reachability {inv}", expect_violation=True)
            if inv not in r.violated:
                raise Machinery(f"reachability companion {inv} not violated: antecedent unreachable")
        # 3. S->C: behaviours
        behs = []
        r = tlc.run("Descriptor", _cfg("per_entry_stack", "trans", 7 if deep else 5, view=True, props=False, invs=()),
                    workdir=wd)
        o.add_tlc(r, "emit: every transition of the abstract graph via a shortest path")
        behs += [x["v"] for x in r.by_tag("beh")]
        n_trans = len(behs)
        r = tlc.run("Descriptor", _cfg("per_entry_stack", "paths", 4 if deep else 3, view=False, props=False, invs=(),
                                       ncx=2 if deep else 1), workdir=wd)
        o.add_tlc(r, "emit: all paths of bounded length")
        behs += [x["v"] for x in r.by_tag("beh")]
        n_paths = len(behs) - n_trans
        r = tlc.run("Descriptor", _cfg("per_entry_stack", "paths", 14, view=False, props=False, invs=()),
                    workdir=wd, simulate=f"num={20000 if deep else 1500}", depth=15, seed=seed, workers=1)
        o.add_tlc(r, "emit: random walks of length 14")
        behs += [x["v"] for x in r.by_tag("beh")]
        # nests deeper than the exhaustive bound: `with` blocks up to 12 deep (re-entered context objects included)
        n_before = len(behs)
        r = tlc.run("Descriptor", _cfg("per_entry_stack", "drain", 34, view=False, props=False, invs=(), maxdepth=12, ncx=3),
                    workdir=wd, simulate=f"num={6000 if deep else 600}", depth=50, seed=seed + 1, workers=1)
        o.add_tlc(r, "emit: random walks of 34 steps with nesting up to 12, then every open block is left")
        behs += [x["v"] for x in r.by_tag("beh")]
        o.notes["behaviours_deep_nesting"] = len(behs) - n_before
        o.notes.update(behaviours_transition_cover=n_trans, behaviours_all_paths=n_paths,
                       behaviours_random=n_before - n_trans - n_paths)
        if replay_path:
            import json
            behs = [json.load(open(replay_path))["case"]["hist"]]
        if not behs:
            raise Machinery("TLC emitted no behaviours")
        for b in behs:
            pats = concretise(b, rng)
            bad = replay(b, pats)
            o.traces += 1
            o.evaluations += len(b)
            o.nontrivial.add(tuple((s["a"], tuple(s["x"]), s["out"]) for s in b))
            if any(s["a"] == "Exit" for s in b):
                o.sample({"behaviour": [(s["a"], s["x"], s["out"], s["cfg"]) for s in b],
                          "patterns": {k: list(v) for k, v in pats.items()}}, limit=3)
            for clause, i, detail in bad[:1]:
                o.violate(clause, {"hist": b[: i + 1]}, {"step": i, **detail,
                                                        "patterns": {k: list(v) for k, v in pats.items()}})
        # 4. binding self test: a corrupted expectation must be rejected
        probe = next((b for b in behs if any(s["a"] == "Set" and s["out"] == "ok" for s in b)), None)
        if probe is None:
            raise Machinery("no behaviour with a successful Set for the binding self test")
        import copy
        mut = copy.deepcopy(probe)
        k = next(i for i, s in enumerate(mut) if s["a"] == "Set" and s["out"] == "ok")
        mut[k]["cfg"] = "v0" if mut[k]["cfg"] != "v0" else "v1"
        pats = concretise(mut, random.Random(1))
        pats.setdefault("v1", VALID_POOL[0])
        if not replay(mut, pats):
            raise Machinery("binding self test: corrupted expectation was accepted")
        o.notes["binding_selftest"] = "rejected"
        o.rule = ("behaviours of spec/Descriptor.tla (operation sequences Create/Enter/Exit/Set/Render) replayed with "
                  "real with-blocks; distinct = distinct operation sequences; non-trivial = all (each has >= 1 op)")
        o.assumptions = ["LIFO nesting of with-blocks (Python semantics)",
                         "abstract pattern ids concretised from pools of 10 valid / 21 invalid spellings"]
        o.exhaustive = True
    finally:
        tlc.cleanup(wd)
    return finish(o)
