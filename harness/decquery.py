"""C09 / C10 case builders: chains and path expansion judged against the tables the
parser itself reports (tokens: names verbatim, numbers as repr strings)."""
from __future__ import annotations

import copy
import random
import warnings
from functools import lru_cache
from pathlib import Path

from . import decio
from .core import REPO, Machinery
from .descriptor import parse_all

DEFAULT_TOP, DEFAULT_SUB = "{mother} -> {daughters}", "({mother} -> {daughters})"


def tok(x):
    if isinstance(x, str):
        return {"t": "word", "v": x}
    return {"t": "num", "v": repr(x)}


def obs_tables(p, mothers):
    """tables of the given mothers as the public API reports them"""
    out = []
    for m in mothers:
        modes = p.list_decay_modes(m)
        alld = sorted({d for mode in modes for d in mode})
        entries = p.build_decay_chains(m, stable_particles=alld)[m]
        # model, parameters and branching fraction of each line by a route that does not go through chain building (the
        # module-level readers on the line trees); falls back to the chain entries if that route is not there
        indep = None
        try:
            from decaylanguage.dec import dec as _dec
            trees = p._find_decay_modes(m)
            indep = [(_dec.get_branching_fraction(t), _dec.get_model_name(t), _dec.get_model_parameters(t)) for t in trees]
            if len(indep) != len(entries):
                indep = None
        except Exception:  # noqa: BLE001
            indep = None
        lines = []
        for j, e in enumerate(entries):
            bf, mn, mp = indep[j] if indep else (e["bf"], e["model"], e["model_params"])
            lines.append({"bf": repr(bf), "ds": list(modes[j]), "mn": mn,
                          "ps": [] if mp in ("", []) else [tok(x) for x in mp]})
        out.append({"m": m, "lines": lines})
    return out


def closure(p, mother, have=None):
    """mothers with a table reachable from `mother` (file order preserved)"""
    all_m = p.list_decay_mother_names()
    has = set(all_m)
    seen, stack = set(), [mother]
    while stack:
        n = stack.pop()
        if n in seen or n not in has:
            continue
        seen.add(n)
        for mode in p.list_decay_modes(n):
            stack.extend(d for d in mode if d not in seen)
    return [m for m in all_m if m in seen]


def proj_chain(entries):
    out = []
    for e in entries:
        fs = []
        for d in e["fs"]:
            if isinstance(d, str):
                fs.append({"n": d, "dec": False, "sub": []})
            else:
                (k, v), = d.items()
                fs.append({"n": k, "dec": True, "sub": proj_chain(v)})
        mp = e["model_params"]
        out.append({"bf": repr(e["bf"]), "model": e["model"], "ps": [] if mp in ("", []) else [tok(x) for x in mp],
                    "fs": fs})
    return out


def tree_json(t):
    if isinstance(t, str):
        return {"m": t, "leaf": True, "kids": []}
    m, ds = t
    return {"m": m, "leaf": False, "kids": [tree_json(d) for d in ds]}


def unfold_size(tables, m, S=frozenset(), cap=10**7):
    """number of nodes of the unfolding / number of paths - only used to *select* inputs"""
    tmap = {t["m"]: t for t in tables}
    memo_n, memo_p = {}, {}

    def nodes(x):
        if x in S or x not in tmap:
            return 1
        if x not in memo_n:
            memo_n[x] = None
            tot = 1
            for ln in tmap[x]["lines"]:
                for d in ln["ds"]:
                    r = nodes(d)
                    if r is None:
                        return None      # cyclic
                    tot += r
                    if tot > cap:
                        tot = cap
            memo_n[x] = tot
        return memo_n[x]

    def paths(x):
        if x not in tmap or not tmap[x]["lines"]:
            return 1
        if x not in memo_p:
            memo_p[x] = None
            tot = 0
            for ln in tmap[x]["lines"]:
                pr = 1
                for d in ln["ds"]:
                    r = paths(d)
                    if r is None:
                        return None
                    pr = min(pr * r, cap)
                tot = min(tot + pr, cap)
            memo_p[x] = tot
        return memo_p[x]
    return nodes(m), paths(m)


# --------------------------------------------------------------- one case
def chain_case(p, m, S, cid, extra=None):
    from decaylanguage.dec.dec import DecayNotFound
    try:
        mothers = closure(p, m)
        obs = {"tables": obs_tables(p, mothers)}
    except Exception as e:  # noqa: BLE001   (the tables themselves cannot be listed: an observation, judged as such)
        obs = {"tables": []}
        res = {"notfound": False, "entries": [{"bf": "?tables-raised " + type(e).__name__}]}
        c = {"prop": "C09", "cid": cid, "obs": obs, "m": m, "S": sorted(S), "res": res}
        c.update(extra or {})
        return c
    try:
        # the stable set in the three forms the signature names: list, tuple, set
        form = (list, tuple, set)[(len(m) + len(S)) % 3]
        # ... by keyword or, as the signature allows, as the second positional argument
        ch = p.build_decay_chains(m, stable_particles=form(S)) if (len(m) + 2 * len(S)) % 4 else p.build_decay_chains(m, form(S))
        res = {"notfound": False, "entries": proj_chain(ch[m]) if list(ch.keys()) == [m] else [{"bf": "?key"}]}
    except DecayNotFound:
        res = {"notfound": True, "entries": []}
    except Exception as e:  # noqa: BLE001
        res = {"notfound": False, "entries": [{"bf": "?raised " + type(e).__name__}]}
    c = {"prop": "C09", "cid": cid, "obs": obs, "m": m, "S": sorted(S), "res": res}
    c.update(extra or {})
    return c


def expand_case(p, m, cid, extra=None):
    mothers = closure(p, m)
    obs = {"tables": obs_tables(p, mothers)}
    aliases = p.dict_aliases()
    src = [{"k": "Alias", "m": a, "src": b} for a, b in aliases.items()]
    descs = p.expand_decay_modes(m)
    trees, bad = [], []
    for s in descs:
        ps = parse_all(s, DEFAULT_TOP, DEFAULT_SUB)
        if len(ps) != 1:
            bad.append(s)
            trees.append({"m": "?unreadable:" + s, "leaf": True, "kids": []})
        else:
            trees.append(tree_json(ps[0]))
    c = {"prop": "C10", "cid": cid, "obs": obs, "src": src, "m": m, "res": {"trees": trees}, "descriptors": descs[:50]}
    c.update(extra or {})
    return c


# --------------------------------------------------------------- generated files
def build_generated(args):
    prop, cid, src, seed, queries = args
    rng = random.Random(seed)
    cz = decio.Concretiser(rng, readable=True, vocab=f"q/{cid // 64}" if isinstance(cid, int) and cid % 2 == 1 else None)
    cz.related = isinstance(cid, int) and cid % 4 == 2          # one file in four: names that are spellings of each other
    text = decio.render_file(cz, src)
    p, err, _ = decio.parse_text(text)
    if p is None:
        return [{"prop": prop, "cid": cid, "obs": {"tables": []}, "m": "?", "S": [], "src": [],
                 "res": {"notfound": False, "entries": [{"bf": "?parse-error"}], "trees": []},
                 "text": text, "asrc": src, "error": repr(err)}]
    out = []
    names = {a: cz.name(a) for a in ("A", "B", "C", "x", "y")}
    for q in queries:
        if prop == "C09":
            m, S = q
            out.append(chain_case(p, names[m], [names[s] for s in S], cid, {"text": text, "asrc": src}))
        else:
            if names[q] in p.list_decay_mother_names():
                out.append(expand_case(p, names[q], cid, {"text": text, "asrc": src}))
    return out


def build_ladder(args):
    """table sets past the sizes of the enumerated universe: a ladder of `depth` nested tables (every one the daughter of
    the one before, each with a second line of stable daughters), queried at the top, in the middle and with stable
    particles at a chosen rung"""
    prop, cid, depth, seed = args
    rng = random.Random(seed)
    pool = [w for w in decio.label_pool() if decio.label_ok(w) and decio._readable(w)]     # names a descriptor can be read back with
    names = rng.sample(pool, depth + 3)
    rungs, leaves = names[:depth], names[depth:]
    models = decio.model_names()
    text = ""
    for i, n in enumerate(rungs):
        text += f"Decay {n}\n"
        if i + 1 < depth:
            ds = [rungs[i + 1], rng.choice(leaves)]
            rng.shuffle(ds)
            text += f"  0.{rng.randint(1, 8)}  {' '.join(ds)}  {rng.choice(models)};\n"
        text += f"  0.0{rng.randint(1, 9)}  {rng.choice(leaves)} {rng.choice(leaves)}  {rng.choice(models)};\n"
        text += "Enddecay\n"
    p, err, _ = decio.parse_text(text)
    if p is None:
        raise Machinery(f"ladder file does not parse: {err!r}\n{text}")
    out = []
    for top in (0, depth // 2):
        if prop == "C09":
            for S in ([], [rungs[depth - 2]], [rungs[min(top + 1, depth - 1)]], [leaves[0], rungs[depth - 1]]):
                out.append(chain_case(p, rungs[top], S, cid, {"text": text}))
        else:
            out.append(expand_case(p, rungs[top], cid, {"text": text}))
    return out


# --------------------------------------------------------------- shipped files
@lru_cache(maxsize=4)
def shipped_parser(path: str):
    from decaylanguage import DecFileParser
    p = DecFileParser(path)
    extra = EXTRA_MODELS.get(Path(path).name)
    if extra:
        p.load_additional_decay_models(*extra)
    with warnings.catch_warnings():
        warnings.simplefilter("ignore")
        try:
            p.parse()
        except Exception:  # noqa: BLE001  (fixtures that are meant not to parse)
            return None
    return p


# models the repository's own tests register before parsing these fixtures
EXTRA_MODELS = {"test_custom_decay_model.dec": ("CUSTOM_MODEL1", "CUSTOM_MODEL2")}


def shipped_files():
    data = REPO / "src" / "decaylanguage" / "data"
    masters = [str(data / "DECAY_LHCB.DEC"), str(data / "DECAY_BELLE2.DEC")]
    tests = sorted(str(f) for f in (REPO / "tests" / "data").glob("*.dec"))
    tests = [f for f in tests if shipped_parser(f) is not None]
    return masters, tests


def build_shipped(args):
    prop, cid, path, m, S = args
    p = shipped_parser(path)
    if prop == "C09":
        return chain_case(p, m, S, cid, {"file": Path(path).name})
    return expand_case(p, m, cid, {"file": Path(path).name})
