"""C12 - flattening multiplies branching fractions and keeps exactly the leaves."""
from __future__ import annotations

import copy
import json
import random

from . import tlc
from . import chainio as cio
from .core import Outcome, ensure_repo_on_path, finish, pmap, Machinery, time_limit, CodeHang, chunked

PROP = "C12"


def flatten_universe(wd, o, nd, mb, emit, what):
    cfg = tlc.cfg_text(spec="Spec", constants=dict(NDecay=nd, MaxBag=mb, DoEmit=emit),
                       invariants=["FlattenLeaves", "FlattenUsed", "Partial", "RoundTrip"], properties=["Termination"])
    r = tlc.run("Flatten", cfg, workdir=wd, keep_records=emit, timeout=3000)
    o.add_tlc(r, what)
    if r.violated:
        o.violate("spec-invariant", {"violated": r.violated}, r.stdout_path)
    return [x["v"] for x in r.by_tag("case")] if emit else []


def random_chain(rng, nmax):
    """acyclic chain with up to nmax decaying particles, multiplicities up to 4, particles re-occurring at several depths"""
    nd = rng.randint(1, nmax)
    names = [f"p{i}" for i in range(nd)]
    leaves = [f"l{i}" for i in range(rng.randint(1, 4))]
    decays = []
    for i, n in enumerate(names):
        lower = names[i + 1:]
        ds = {}
        for _ in range(rng.randint(1, 4)):
            x = rng.choice(lower) if lower and rng.random() < 0.6 else rng.choice(leaves)
            ds[x] = min(ds.get(x, 0) + rng.choice([1, 1, 1, 2, 3]), 4)
        decays.append({"n": n, "bf": "bf_" + n, "meta": "meta_" + n, "ds": sorted([k, v] for k, v in ds.items())})
    # keep only what is reachable from the mother
    byn = {d["n"]: d for d in decays}
    seen, stack = set(), [names[0]]
    while stack:
        n = stack.pop()
        if n in seen or n not in byn:
            continue
        seen.add(n)
        stack += [k for k, _ in byn[n]["ds"]]
    return {"mother": names[0], "decays": [d for d in decays if d["n"] in seen]}


def shaped_chain(rng, shape):
    """chains past the sizes of the random ones: "wide" = a mode with 10..14 distinct daughters (some of them decaying),
    "deep" = a line of 12..25 decaying particles each the daughter of the one before"""
    if shape == "wide":
        nd = rng.randint(1, 3)
        names = [f"p{i}" for i in range(nd)]
        leaves = [f"l{i}" for i in range(rng.randint(10, 14))]
        decays = []
        for i, n in enumerate(names):
            ds = {x: 1 for x in (leaves if i == 0 or rng.random() < 0.5 else rng.sample(leaves, 3))}
            if i + 1 < nd:
                ds[names[i + 1]] = 1
            if i == 0 and rng.random() < 0.3:
                ds[leaves[0]] = 2
            decays.append({"n": n, "bf": "bf_" + n, "meta": "meta_" + n, "ds": sorted([k, v] for k, v in ds.items())})
        return {"mother": names[0], "decays": decays}
    nd = rng.randint(12, 25)
    names = [f"p{i}" for i in range(nd)]
    leaves = [f"l{i}" for i in range(3)]
    decays = []
    for i, n in enumerate(names):
        ds = {rng.choice(leaves): 1}
        if i + 1 < nd:
            ds[names[i + 1]] = 1
        decays.append({"n": n, "bf": "bf_" + n, "meta": "meta_" + n, "ds": sorted([k, v] for k, v in ds.items())})
    return {"mother": names[0], "decays": decays}


def build(args):
    cid, c, S, keys, seed = args
    rng = random.Random(seed)
    c = cio.norm_chain(c)
    cz = cio.ChainCZ(rng, cio.chain_names(c))
    dec_names = [d["n"] for d in c["decays"]]
    tok2name = {d["bf"]: d["n"] for d in c["decays"]}
    order = list(keys) + [n for n in dec_names if n not in keys]       # stable ones inserted last
    if rng.random() < 0.5:
        rng.shuffle(order)
        order = [k for k in order]
    obs = {"raised": "-", "fs": [], "used": [], "nsub": 0, "float_ok": True, "visible_ok": True, "orders_same": True,
           "meta_kept": True, "unchanged": True, "reuse_ok": True}
    try:
        with time_limit(5):
            dc = cio.build_chain(cz, c, order=order, rng=rng)
            before = json.dumps(dc.to_dict(), default=repr, sort_keys=True)
            Sc = [cz.names[s] for s in S]
            stable_arg = rng.choice([Sc, tuple(Sc), set(Sc), frozenset(Sc), dict.fromkeys(Sc).keys()]) if Sc else rng.choice([(), []])
            # by keyword or as the only positional argument
            fl = dc.flatten(stable_particles=stable_arg) if rng.random() < 0.7 else dc.flatten(stable_arg)
            top = fl.decays[fl.mother]
            obs["fs"] = sorted([cz.rname(k), v] for k, v in top.daughters.items() if v > 0)
            used = cio.factorise(cz, top.bf)
            obs["used"] = sorted([tok2name.get(t, t), e] for t, e in used)
            obs["nsub"] = len(fl.decays) - 1 + (0 if fl.mother == dc.mother else 1)
            obs["meta_kept"] = top.metadata == dc.decays[dc.mother].metadata
            obs["unchanged"] = json.dumps(dc.to_dict(), default=repr, sort_keys=True) == before
            # other insertion orders of the sub-decay mapping
            for _ in range(3):
                o2 = dec_names[:]
                rng.shuffle(o2)
                dc2 = cio.build_chain(cz, c, order=o2, rng=rng)
                f2 = dc2.flatten(stable_particles=stable_arg)
                t2 = f2.decays[f2.mother]
                if t2.bf != top.bf or dict(t2.daughters) != dict(top.daughters) or t2.metadata != top.metadata:
                    obs["orders_same"] = False
            # float arithmetic agrees with the exact product
            dcf = cio.build_chain(cz, c, order=order, bf_float=True)
            ff = dcf.flatten(stable_particles=stable_arg).bf
            obs["float_ok"] = abs(ff - float(top.bf)) <= 1e-12 * abs(float(top.bf))
            if not Sc:
                obs["visible_ok"] = dc.visible_bf == top.bf
            # the same object once more: flattened completely, asked for its visible bf, flattened partially again -
            # each answer as a fresh object gives it
            ref = cio.build_chain(cz, c, order=order).flatten()
            rt = ref.decays[ref.mother]
            again = dc.flatten()
            at = again.decays[again.mother]
            third = dc.flatten(stable_particles=stable_arg)
            tt = third.decays[third.mother]
            obs["reuse_ok"] = (at.bf == rt.bf and dict(at.daughters) == dict(rt.daughters) and dc.visible_bf == rt.bf
                               and tt.bf == top.bf and dict(tt.daughters) == dict(top.daughters))
    except (Exception, CodeHang) as e:  # noqa: BLE001
        obs["raised"] = repr(e)[:200]
    return {"prop": PROP, "cid": cid, "c": c, "S": list(S), "keys": list(keys), "obs": obs,
            "names": cz.names, "order": order}


@chunked()
def judge(cases, wd, o, what):
    tf = wd / f"trace_{len(list(wd.glob('trace_*.json')))}.json"
    strip = ("cid", "names", "order", "keys", "text")
    tf.write_text(json.dumps([{k: v for k, v in c.items() if k not in strip} for c in cases]))
    r = tlc.run("ChainTrace", tlc.cfg_text(), workdir=wd, env={"TRACE_FILE": str(tf)}, timeout=3000)
    o.add_tlc(r, what)
    acc = {x["tid"] for x in r.by_tag("ACCEPT")}
    rej = {x["tid"] for x in r.by_tag("REJECT")}
    if acc | rej != set(range(1, len(cases) + 1)) or acc & rej:
        raise Machinery(f"trace verdicts not total: {len(acc)}+{len(rej)} of {len(cases)} ({r.stdout_path})")
    fails = {}
    for x in r.by_tag("FAIL"):
        fails.setdefault(x["tid"] - 1, []).append(x)
    out = {}
    for t in rej:
        fl = fails[t - 1]
        mach = [f for f in fl if f["clause"].startswith("MACHINERY")]
        if mach:
            raise Machinery(f"harness self-check failed: {mach[0]} on {json.dumps(cases[t-1])[:800]}")
        out[t - 1] = fl
    return out


def record(o, cases, rej, keys=("c", "S")):
    for c in cases:
        o.traces += 1
        o.evaluations += 1
        o.nontrivial.add(json.dumps([c.get(k) for k in keys] + [c["prop"]], sort_keys=True))
    for i, fl in rej.items():
        c = cases[i]
        o.violate(fl[0]["clause"], {k: c.get(k) for k in keys},
                  {"clauses": [f["clause"] for f in fl], "diag": fl[0].get("diag"), "names": c.get("names"),
                   "order": c.get("order"), "obs": c.get("obs")})


def selftest(o, cases, rej, wd, corrupt, tier, seed):
    for i, c in enumerate(cases):
        if i in rej:
            continue
        m = copy.deepcopy(c)
        if corrupt(m):
            if not judge([m], wd, Outcome(c["prop"][:3], tier, seed), "selftest"):
                raise Machinery("binding self test: corrupted observation accepted")
            o.notes["binding_selftest"] = "rejected"
            return
    if not rej:
        raise Machinery("binding self test: nothing to corrupt")
    o.notes["binding_selftest"] = "skipped: every case was rejected"


def corrupt(c):
    if c["obs"]["fs"]:
        c["obs"]["fs"][0][1] += 1
        return True
    return False


def run(tier, seed, replay_path=None):
    ensure_repo_on_path()
    o = Outcome(PROP, tier, seed)
    rng = random.Random(seed)
    deep = tier == "thorough"
    wd = tlc.new_workdir("c12")
    try:
        emitted = flatten_universe(wd, o, 3, 2, True, "PlusCal Flatten: all chains (3 decaying, <=2 daughters) x stable sets x key orders")
        if deep:
            flatten_universe(wd, o, 4, 2, False, "PlusCal Flatten: 4 decaying particles, <=2 daughters (invariants + termination)")
            emitted += flatten_universe(wd, o, 3, 3, True, "PlusCal Flatten: 3 decaying particles, <=3 daughters, emitted")
        else:
            flatten_universe(wd, o, 3, 3, False, "PlusCal Flatten: 3 decaying particles, <=3 daughters (invariants + termination)")
        for inv in ("OnePass", "NoRepeatedDecaying"):
            cfg = tlc.cfg_text(spec="Spec", constants=dict(NDecay=3, MaxBag=2, DoEmit=False), invariants=[inv])
            r = tlc.run("Flatten", cfg, workdir=wd, keep_records=False)
            o.add_tlc(r, f"reachability companion {inv}", expect_violation=True)
            if inv not in r.violated:
                raise Machinery(f"{inv} not violated: the loop never needs a second pass / no decay occurs twice")
        o.notes["universe_runs"] = len(emitted)
        if replay_path:
            c = json.load(open(replay_path))["case"]
            args = [(0, c["c"], c["S"], [d["n"] for d in c["c"]["decays"] if d["n"] not in c["S"]], seed)]
        else:
            nwin = 40000 if deep else 1500
            if len(emitted) > nwin:
                k = len(emitted)
                off, step = seed % k, k // nwin
                emitted = [emitted[(off + i * step) % k] for i in range(nwin)]
                o.notes["universe_window"] = f"{nwin} of {k}"
            else:
                o.exhaustive = True
            args = [(i, e["c"], e["S"], e["keys"], seed * 101 + i) for i, e in enumerate(emitted)]
            # larger random chains: up to 15 decaying particles, multiplicity up to 4, random stable sets
            for j in range(6000 if deep else 600):
                c = random_chain(rng, 15 if j % 3 == 0 else 7) if j % 25 else shaped_chain(rng, "wide" if j % 50 else "deep")
                cand = [d["n"] for d in c["decays"] if d["n"] != c["mother"]]
                S = rng.sample(cand, rng.randint(0, len(cand))) if cand and rng.random() < 0.6 else []
                keys = [d["n"] for d in c["decays"] if d["n"] not in S]
                rng.shuffle(keys)
                args.append((len(args), c, S, keys, seed * 101 + len(args)))
        cases = pmap(build, args)
        rej = judge(cases, wd, o, "judge flatten() results against Leaves / DecaysUsed (ChainTrace)")
        record(o, cases, rej)
        selftest(o, cases, rej, wd, corrupt, tier, seed)
        o.notes["max_decaying_particles"] = max(len(c["c"]["decays"]) for c in cases)
        for c in cases[-2:] + cases[:1]:
            o.sample({"chain": c["c"], "stable": c["S"], "names": c["names"], "fs": c["obs"]["fs"], "used": c["obs"]["used"]})
        o.rule = ("(chain, stable set, insertion order) triples: every run of the PlusCal Flatten universe (quick: a window) and "
                  "random acyclic chains with up to 15 decaying particles; real chains carry pairwise distinct prime-reciprocal "
                  "Fraction bfs so the bag of decays used is read off the returned bf by factorisation; distinct = distinct "
                  "(chain, stable set)")
        o.assumptions = ["stable sets never contain the mother; chains are acyclic (TLC re-checks WellFormed on every case)"]
    finally:
        tlc.cleanup(wd)
    return finish(o)
