"""C18 - each amplitude is emitted with exactly its Bose-symmetrised permutations."""
from __future__ import annotations

import copy
import itertools
import json
import random

from . import tlc, ampio, goofitio
from .c17 import judge as judge_ampgen
from .core import Outcome, ensure_repo_on_path, finish, pmap, Machinery, chunked

PROP = "C18"
IDS = {"K-": -321, "K+": 321, "pi+": 211, "pi-": -211, "D0": 421, "R": 113}
PATTERNS = [["K-", "pi+", "pi-", "K+"], ["K-", "pi+", "pi+", "pi-"], ["pi+", "pi-", "pi+", "pi-"], ["pi+", "pi+", "pi+", "pi-"],
            ["pi+", "pi+", "pi+", "pi+"], ["K-", "pi+", "pi+"], ["pi+", "pi+", "pi+"], ["K-", "pi+", "pi-"], ["pi+", "pi+"], ["K-", "pi+"]]


def shapes(n):
    """all binary tree shapes with n leaves (nested tuples of None)"""
    if n == 1:
        return [None]
    out = []
    for k in range(1, n):
        for a in shapes(k):
            for b in shapes(n - k):
                out.append((a, b))
    return out


def fill(shape, leaves):
    it = iter(leaves)

    def go(s):
        if s is None:
            return {"name": next(it), "kids": []}
        return {"name": "R", "kids": [go(s[0]), go(s[1])]}
    return go(shape)


def perm_cases():
    cases = []
    for fin in PATTERNS:
        for k in range(2, len(fin) + 1):
            for sub in sorted(set(itertools.permutations(fin, k))):
                # leaves must be available in the event type with their multiplicity
                if any(sub.count(x) > fin.count(x) for x in sub):
                    continue
                for sh in shapes(k):
                    cases.append({"tree": fill(sh, sub), "finals": fin})
    # amplitudes naming a particle the event type does not have (one foreign leaf among otherwise fitting ones)
    for fin in PATTERNS:
        foreign = next((x for x in ("K+", "K-", "pi+", "pi-") if x not in fin), None)
        if foreign is None:
            continue
        for k in range(2, min(len(fin), 3) + 1):
            for sub in sorted(set(itertools.permutations(fin, k)))[:6]:
                for pos in range(k):
                    leaves = list(sub)
                    leaves[pos] = foreign
                    cases.append({"tree": fill(shapes(k)[0], leaves), "finals": fin})
    return cases


CLASSES = ["ModelDecay", "AmplitudeChain", "GooFitChain", "GooFitPyChain"]


def build_perm(args):
    cid, tree, finals, clsname = args
    from particle import Particle
    from decaylanguage.modeling.decay import ModelDecay
    from decaylanguage.modeling.amplitudechain import AmplitudeChain
    from decaylanguage.modeling.goofit import GooFitChain, GooFitPyChain
    cls = {"ModelDecay": ModelDecay, "AmplitudeChain": AmplitudeChain, "GooFitChain": GooFitChain, "GooFitPyChain": GooFitPyChain}[clsname]

    def mk(t):
        # (the permutations are asked of the class that emits the code as well as of the base class)
        return cls(Particle.from_pdgid(IDS[t["name"]]), [mk(k) for k in t["kids"]])
    obs = {"perms": [], "raised": "-"}
    try:
        line = mk(tree)
        fs = [Particle.from_pdgid(IDS[x]) for x in finals]
        obs["perms"] = [[i + 1 for i in p] for p in line.list_structure(fs)]
    except Exception as e:  # noqa: BLE001
        obs["raised"] = repr(e)[:200]
    return {"prop": "C18P", "cid": cid, "tree": tree, "finals": finals, "cls": clsname, "obs": obs}


def build_emit(args):
    cid, event, line, seed, lang = args
    rng = random.Random(seed)
    from decaylanguage.modeling.goofit import GooFitChain, GooFitPyChain
    from decaylanguage.modeling.amplitudechain import AmplitudeChain
    ampio.fast_lookup()
    AmplitudeChain.cartesian = False
    text = "EventType " + " ".join(event) + "\n" + goofitio.render_tree(line) + "  0 1.0 0.1  0 0.5 0.1" \
        + rng.choice(["", "", "   # the only amplitude", "\t#fixed"]) + "\n" \
        + "\n".join(goofitio.support_lines([line], rng)) + "\n"
    cls = GooFitChain if lang == "cpp" else GooFitPyChain
    obs = {"raised": "-", "sfs": [], "lss": [], "n": -1, "groups": []}
    code = ""
    try:
        lines, states = goofitio.read_options(cls, text, (cid // 2) % 3 if isinstance(cid, int) else 0)
        if len(lines) != 1:
            # one complete line was written: any other number of amplitudes is an observation, judged as a refusal
            raise RuntimeError(f"count: {len(lines)} amplitudes read from a text with one complete line")
        code = lines[0].to_goofit(states[1:])
        if lines[0].to_goofit(states[1:]) != code:
            raise RuntimeError("the same amplitude object emits another text when asked again")
        sfs, lss, n = goofitio.read_amplitude(code, lang)
        obs.update(sfs=sfs, lss=lss, n=n)
        # group i of the spin factors and group i of the lineshapes are what GooFit combines for permutation i
        nres = len(goofitio.resonances(line))
        k = max(n, 1)
        if n > 0 and len(sfs) % n == 0 and len(lss) == n * nres:
            per = len(sfs) // n
            obs["groups"] = [{"sfs": sfs[i * per:(i + 1) * per], "lss": lss[i * nres:(i + 1) * nres]} for i in range(n)]
        else:
            obs["groups"] = [{"sfs": sfs, "lss": lss}]
    except Machinery:
        raise
    except Exception as e:  # noqa: BLE001
        obs["raised"] = type(e).__name__ + ": " + str(e)[:150]
    return {"prop": "C18E", "cid": cid, "line": line, "finals": list(event[1:]), "lang": lang, "obs": obs, "text": text, "code": code}


def build_emit_file(args):
    """several mother lines, one of them naming a resonance only; that resonance has two or three decay lines of its own.
    Expected: the cartesian expansion, each amplitude once, in file order - each judged like a single-line amplitude."""
    cid, event, trees, seed, lang = args
    rng = random.Random(seed)
    from decaylanguage.modeling.goofit import GooFitChain, GooFitPyChain
    from decaylanguage.modeling.amplitudechain import AmplitudeChain
    ampio.fast_lookup()
    AmplitudeChain.cartesian = False
    # pick the first resonance of the first tree; alternatives = the same resonance with other lineshape tags
    t0 = copy.deepcopy(trees[0])
    res = goofitio.resonances(t0)
    if not res:
        return []
    victim = res[0]
    alts = [copy.deepcopy(victim)]
    all_tags = [t for tags in goofitio.LS_KINDS.values() for t in tags]
    for tag in (rng.sample(["GSpline.EFF", None, "FOCUS.Kpi", "kMatrix.pole.1"], rng.randint(1, 2)) if cid % 3
                else rng.sample(all_tags, rng.randint(3, len(all_tags)))):          # every third file: up to 8 lines
        a = copy.deepcopy(victim)
        n = goofitio.node(a["name"], sf=a["sf"], ls=tag, kids=a["kids"])
        if n["ls"] != victim["ls"] and all(n["ls"] != x["ls"] for x in alts):
            alts.append(n)
    if len(alts) < 2:
        return []

    def strip(t):
        if t is victim:
            return {**t, "kids": [], "sf": "-", "ls": "-"}
        return {**t, "kids": [strip(k) for k in t["kids"]]}

    def subst(t, a):
        if t is victim:
            return a
        return {**t, "kids": [subst(k, a) for k in t["kids"]]}
    partial = strip(t0)
    # the mother line naming the resonance only stands first or anywhere among the other mother lines
    at = 0 if cid % 2 else rng.randint(0, len(trees) - 1)
    rest = [copy.deepcopy(t) for t in trees[1:]]
    expected = rest[:at] + [subst(t0, a) for a in alts] + rest[at:]
    body = [goofitio.render_tree(t) + "  0 1.0 0.1  0 0.5 0.1" for t in rest]
    body.insert(at, goofitio.render_tree(partial) + "  0 1.0 0.1  0 0.5 0.1")
    subs = [goofitio.render_tree(a) + "  2 1.0 0.0  2 0.0 0.0" for a in alts]
    how = rng.random()
    if how < 0.35:
        order = body + subs
    elif how < 0.7:
        order = subs + body                  # the resonance's own lines may stand before or after the mother lines
    else:
        # ... or between them: a random merge that keeps the order of the mother lines and that of the resonance's lines
        order, bi, si = [], 0, 0
        while bi < len(body) or si < len(subs):
            if si >= len(subs) or (bi < len(body) and rng.random() < len(body) / (len(body) + len(subs))):
                order.append(body[bi]); bi += 1
            else:
                order.append(subs[si]); si += 1
    if cid % 2:
        order = goofitio.with_remarks(order, rng)
    text = "EventType " + " ".join(event) + "\n" + "\n".join(order) + "\n" + "\n".join(goofitio.support_lines(expected, rng)) + "\n"
    cls = GooFitChain if lang == "cpp" else GooFitPyChain
    out = []
    try:
        lines, states = goofitio.read_options(cls, text, cid % 3)
        codes = []
        for ln in lines:
            try:
                codes.append(ln.to_goofit(states[1:]))
            except Exception as e:  # noqa: BLE001
                codes.append("RAISED " + type(e).__name__ + ": " + str(e)[:150])
    except Exception as e:  # noqa: BLE001
        codes = ["RAISED " + type(e).__name__ + ": " + str(e)[:150]] * len(expected)
    for i, exp in enumerate(expected):
        obs = {"raised": "-", "sfs": [], "lss": [], "n": -1, "groups": []}
        code = codes[i] if i < len(codes) else "RAISED missing: %d amplitudes emitted, %d expected" % (len(codes), len(expected))
        if len(codes) != len(expected):
            code = "RAISED count: %d amplitudes emitted, %d expected" % (len(codes), len(expected))
        if code.startswith("RAISED "):
            obs["raised"] = code[7:]
        else:
            sfs, lss, n = goofitio.read_amplitude(code, lang)
            obs.update(sfs=sfs, lss=lss, n=n)
            nres = len(goofitio.resonances(exp))
            if n > 0 and len(sfs) % n == 0 and len(lss) == n * nres:
                per = len(sfs) // n
                obs["groups"] = [{"sfs": sfs[k * per:(k + 1) * per], "lss": lss[k * nres:(k + 1) * nres]} for k in range(n)]
            else:
                obs["groups"] = [{"sfs": sfs, "lss": lss}]
        out.append({"prop": "C18E", "cid": f"{cid}.{i}", "line": exp, "finals": list(event[1:]), "lang": lang, "obs": obs,
                    "text": text, "code": code, "infile": True})
    return out


@chunked()
def judge_emit(cases, wd, o, what):
    tf = wd / f"trace_{len(list(wd.glob('trace_*.json')))}.json"
    tf.write_text(json.dumps([{k: v for k, v in c.items() if k not in ("cid", "text", "code")} for c in cases]))
    r = tlc.run("AmpEmit", tlc.cfg_text(), workdir=wd, env={"TRACE_FILE": str(tf)}, timeout=3000)
    o.add_tlc(r, what)
    acc = {x["tid"] for x in r.by_tag("ACCEPT")}
    rej = {x["tid"] for x in r.by_tag("REJECT")}
    if acc | rej != set(range(1, len(cases) + 1)) or acc & rej:
        raise Machinery(f"trace verdicts not total: {len(acc)}+{len(rej)} of {len(cases)} ({r.stdout_path})")
    fails = {}
    for x in r.by_tag("FAIL"):
        fails.setdefault(x["tid"] - 1, []).append(x)
    return {t - 1: fails[t - 1] for t in rej}


def run(tier, seed, replay_path=None):
    ensure_repo_on_path()
    o = Outcome(PROP, tier, seed)
    rng = random.Random(seed)
    deep = tier == "thorough"
    wd = tlc.new_workdir("c18")
    try:
        # (a) the permutation sets: every tree shape over every multiplicity pattern (exhaustive, both tiers)
        pc = perm_cases()
        pcases = pmap(build_perm, [(i, c["tree"], c["finals"], k) for i, c in enumerate(pc) for k in CLASSES])
        rej = judge_ampgen(pcases, wd, o, "judge list_structure against Perms (AmpGen trace mode), exhaustive over shapes x patterns")
        for c in pcases:
            o.traces += 1
            o.evaluations += 1
            o.nontrivial.add(json.dumps([c["tree"], c["finals"], c["cls"]]))
        for i, fl in rej.items():
            c = pcases[i]
            o.violate(fl[0]["clause"], {"tree": c["tree"], "finals": c["finals"], "cls": c["cls"]}, {"diag": fl[0].get("diag"), "obs": c["obs"]})
        o.notes["permutation_cases"] = len(pcases)
        o.exhaustive = True
        # (b) generated code of both languages for four-body lines over the spin structures, topologies, lineshape kinds
        n = 3000 if deep else 260
        args = []
        for i in range(n):
            ev = rng.choice(goofitio.EVENTS)
            try:
                line = goofitio.gen_line(rng, ev)
            except RuntimeError:
                continue
            args.append((i, ev, line, seed * 41 + i, "cpp" if i % 2 == 0 else "py"))
        if replay_path:
            rc = json.load(open(replay_path))["case"]
            if rc.get("line"):
                args = [(0, ["D0"] + rc["finals"], rc["line"], seed, rc.get("lang", "cpp"))]
        ecases = pmap(build_emit, args, chunk=8)
        # files with several amplitudes, one mother line naming a resonance that has decay lines of its own
        fargs = []
        for i in range(600 if deep else 70):
            ev = rng.choice(goofitio.EVENTS)
            try:
                trees = [goofitio.gen_line(rng, ev, allow_unsupported=False) for _ in range(rng.randint(1, 3) if i % 5 else rng.randint(4, 9))]
            except RuntimeError:
                continue
            fargs.append((i, ev, trees, seed * 43 + i, "cpp" if i % 2 else "py"))
        if not replay_path:
            for group in pmap(build_emit_file, fargs, chunk=4):
                ecases += group
        rej2 = judge_emit(ecases, wd, o, "judge emitted spin factors / lineshapes / counts (AmpEmit)")
        cover = {}
        for c in ecases:
            o.traces += 1
            o.evaluations += 1
            o.nontrivial.add(json.dumps([c["line"], c["finals"], c["lang"]]))
            for s in c["obs"]["sfs"]:
                cover[s["name"]] = cover.get(s["name"], 0) + 1
        for i, fl in rej2.items():
            c = ecases[i]
            o.violate(fl[0]["clause"], {"line": c["line"], "finals": c["finals"], "lang": c["lang"]},
                      {"clauses": [f["clause"] for f in fl], "diag": fl[0].get("diag"), "text": c["text"], "code": c["code"][:3000]})
        o.notes["spin_factors_seen"] = cover
        o.notes["lineshape_kinds_seen"] = sorted({l["kind"] for c in ecases for l in c["obs"]["lss"]})
        o.notes["refused_as_unsupported"] = sum(1 for i, c in enumerate(ecases) if c["obs"]["raised"] != "-" and i not in rej2)
        good = next((copy.deepcopy(c) for i, c in enumerate(ecases) if i not in rej2 and c["obs"]["sfs"]), None)
        if good is not None:
            good["obs"]["sfs"][0]["idx"] = list(reversed(good["obs"]["sfs"][0]["idx"]))
            if not judge_emit([good], wd, Outcome(PROP, tier, seed), "selftest"):
                raise Machinery("binding self test: corrupted permutation accepted")
            o.notes["binding_selftest"] = "rejected"
        elif not rej2:
            raise Machinery("binding self test: nothing to corrupt")
        for c in ecases[:2]:
            o.sample({"text": c["text"], "lang": c["lang"], "code": c["code"][:1200]})
        o.rule = ("(a) every binary tree shape over every sub-multiset of final states of up to 4 particles in every multiplicity "
                  "pattern (1111, 211, 22, 31, 4, and the 3- and 2-body ones): list_structure vs Perms; (b) random four-body "
                  "lines over the pool (V V in S/P/D wave, V S, S S, S V (refused), cascades A->VP, A->VP D wave, A->SP, T->VP, "
                  "pseudoscalar->VP/SP, bachelor-first (refused)), all lineshape kinds, 4 event types, both languages; "
                  "distinct = distinct (tree, finals[, language])")
        o.assumptions = ["spin letter and J of the pool resonances are the reference table of harness/goofitio.py",
                         "generated code is read with the regular expressions of harness/goofitio.py"]
    finally:
        tlc.cleanup(wd)
    return finish(o)
