"""Seeded random generators of abstract .dec files, larger than the universes TLC
enumerates (direction C -> S).  They only build *inputs*; every expectation
comes from the TLA+ specification."""
from __future__ import annotations

import random

from .pdgdata import tables as pdg_tables


def _params(rng, nmax, words, lits):
    ps = []
    for _ in range(rng.randint(0, nmax)):
        r = rng.random()
        if r < 0.45:
            ps.append({"t": "num", "v": rng.choice(lits)})
        elif r < 0.85:
            ps.append({"t": "word", "v": rng.choice(words)})
        else:
            ps.append({"t": "word", "v": "-" + rng.choice(words)})
    return ps


def gen_c01(rng: random.Random, big: bool):
    """Decay blocks (empty, repeated, interleaved), 0..n daughters, PHOTOS, models, mixed params."""
    nm = rng.randint(1, 6 if big else 4)
    mothers = [f"P{i}" for i in range(nm)]
    daughters = mothers + [f"d{i}" for i in range(rng.randint(1, 8))]
    words = [f"w{i}" for i in range(4)]
    lits = [f"n{i}" for i in range(1, 7)]
    models = [f"M{i}" for i in range(1, 5)]
    aliases = [f"MA{i}" for i in range(2)]
    src = []
    defined_alias = set()
    nst = rng.randint(1, 40 if big else 10)
    many = rng.random() < 0.06
    if many:
        # now and then a file with 8..20 mothers, most of them given two or three Decay blocks
        nm = rng.randint(8, 20)
        mothers = [f"P{i}" for i in range(nm)]
        daughters = mothers + daughters[len(daughters) - rng.randint(1, 4):]
        nst = rng.randint(2 * nm, 3 * nm)
    for _ in range(nst):
        r = rng.random() * (0.7 if many else 1.0)
        if r < 0.6:
            lines = []
            for _ in range(rng.choice([0, 1, 1, 2, 3, 6 if big else 3, 12 if many else 1])):
                use_alias = aliases and rng.random() < 0.2
                ln = {"bf": rng.choice(lits),
                      "ds": [rng.choice(daughters) for _ in range(rng.choice([0, 1, 2, 2, 3, 4, 6]))],
                      "ph": rng.random() < 0.4}
                if use_alias:
                    a = rng.choice(aliases)
                    defined_alias.add(a)
                    ln.update(mk="alias", mn=a, ps=[])
                else:
                    ln.update(mk="model", mn=rng.choice(models), ps=_params(rng, 8 if big else 3, words, lits))
                lines.append(ln)
            src.append({"k": "Decay", "m": rng.choice(mothers), "lines": lines})
        elif r < 0.72:
            src.append({"k": "Define", "m": rng.choice(words[:3]), "v": rng.choice(lits)})
        elif r < 0.82:
            a = rng.choice(aliases)
            defined_alias.add(a)
            src.append({"k": "ModelAlias", "m": a, "mk": "model", "mn": rng.choice(models),
                        "ps": _params(rng, 3, words, lits)})
        elif r < 0.92:
            src.append({"k": "Alias", "m": f"al{rng.randint(0, 3)}", "src": rng.choice(daughters)})
        else:
            # (one copy in four is aimed at a name that has a Decay block of its own: whatever that statement is taken
            #  to mean, the table read for a mother named in a Decay block is that block - C01's own clauses only)
            tgt = rng.choice(mothers) if rng.random() < 0.25 else f"cp{rng.randint(0, 2)}"
            src.append({"k": "CopyDecay", "m": tgt, "src": rng.choice(mothers)})
    # C01 is about well-formed texts: every alias used gets a definition somewhere
    have = {s["m"] for s in src if s["k"] == "ModelAlias"}
    for a in sorted(defined_alias - have):
        src.insert(rng.randint(0, len(src)), {"k": "ModelAlias", "m": a, "mk": "model", "mn": rng.choice(models),
                                              "ps": _params(rng, 2, words, lits)})
    return src, {}, True


def gen_c05(rng: random.Random, big: bool):
    """Define / ModelAlias placed anywhere, redefinitions, names used 0..k times in and across blocks,
    also through CopyDecay and CDecay."""
    words = [f"w{i}" for i in range(4)]
    lits = [f"n{i}" for i in range(1, 7)]
    models = [f"M{i}" for i in range(1, 4)]
    aliases = [f"MA{i}" for i in range(3)]
    t = pdg_tables()
    mothers = ["A", "B", "C"]
    base = {"A": "Ab", "Ab": "A"}
    src = []
    nst = rng.randint(2, 24 if big else 8)
    for _ in range(nst):
        r = rng.random()
        if r < 0.25:
            src.append({"k": "Define", "m": rng.choice(words[:3]), "v": rng.choice(lits)})
        elif r < 0.45:
            src.append({"k": "ModelAlias", "m": rng.choice(aliases), "mk": "model", "mn": rng.choice(models),
                        "ps": _params(rng, 4, words, lits)})
        elif r < 0.85:
            lines = []
            for _ in range(rng.randint(0, 4 if big else 2)):
                ln = {"bf": rng.choice(lits), "ds": [rng.choice(["x", "y", "z"]) for _ in range(rng.randint(0, 3))],
                      "ph": rng.random() < 0.3}
                if rng.random() < 0.5:
                    ln.update(mk="alias", mn=rng.choice(aliases), ps=[])
                else:
                    ln.update(mk="model", mn=rng.choice(models), ps=_params(rng, 4, words, lits))
                lines.append(ln)
            src.append({"k": "Decay", "m": rng.choice(mothers), "lines": lines})
        elif r < 0.93:
            src.append({"k": "CopyDecay", "m": "Cp", "src": rng.choice(mothers)})
        else:
            if not any(s["k"] == "CDecay" for s in src):
                src.append({"k": "CDecay", "m": "Ab"})
    used = {ln["mn"] for s in src if s["k"] == "Decay" for ln in s["lines"] if ln["mk"] == "alias"}
    have = {s["m"] for s in src if s["k"] == "ModelAlias"}
    for a in sorted(used - have):
        src.insert(rng.randint(0, len(src)), {"k": "ModelAlias", "m": a, "mk": "model", "mn": rng.choice(models),
                                              "ps": _params(rng, 3, words, lits)})
    return src, base, True


def gen_c03(rng: random.Random, big: bool):
    """Real EvtGen names (identity concretisation): Decay / Alias / ChargeConj (either orientation) /
    CopyDecay / CDecay in any order; daughters over the whole name table, aliases, self-conjugate and
    unknown names; each name the subject of at most one CDecay."""
    t = pdg_tables()
    conj = t["evt_conj"]
    from .decio import label_ok, unknown_labels
    evt = [n for n in conj if label_ok(n)]
    pairs = [n for n in evt if conj[n] and conj[n] != n and label_ok(conj[n])]
    selfs = [n for n in evt if conj[n] == n]
    unk = unknown_labels()
    # declared alias pairs (the module docstring's idiom: Alias MyX X / Alias MyAntiX anti-X / ChargeConj MyX MyAntiX)
    npairs = rng.randint(0, 3)
    apairs = []
    src = []
    for i in range(npairs):
        a, b = f"My{i}sig", f"Myanti{i}sig"
        # (one pair in four: two aliases of one *self-conjugate* particle, declared conjugates of each other)
        real = rng.choice(pairs if rng.random() < 0.75 else selfs)
        apairs.append((a, b))
        src.append({"k": "Alias", "m": a, "src": real})
        src.append({"k": "Alias", "m": b, "src": conj[real]})
        src.append({"k": "ChargeConj", "m": a, "src": b} if rng.random() < 0.5 else {"k": "ChargeConj", "m": b, "src": a})
    def daughter():
        r = rng.random()
        if r < 0.55:
            return rng.choice(evt)
        if r < 0.7 and apairs:
            return rng.choice(rng.choice(apairs))
        if r < 0.85:
            return rng.choice(selfs)
        return rng.choice(unk[:400])
    mothers = []
    ntab = rng.randint(1, 10 if big else 5)
    for i in range(ntab):
        r = rng.random()
        if r < 0.5 or not apairs:
            m = rng.choice(pairs)
        else:
            m = rng.choice(rng.choice(apairs))
        if m in mothers:
            continue
        mothers.append(m)
        lines = []
        for _ in range(rng.randint(0, 5 if big else 3)):
            lines.append({"bf": f"n{rng.randint(1, 6)}", "ds": [daughter() for _ in range(rng.randint(0, 5))],
                          "ph": rng.random() < 0.4, "mk": "model", "mn": f"M{rng.randint(1, 3)}",
                          "ps": _params(rng, 3, ["w0", "w1"], [f"n{i}" for i in range(1, 7)])})
        src.append({"k": "Decay", "m": m, "lines": lines})
    ap = dict(apairs)
    ap.update({b: a for a, b in apairs})
    def cc(n):
        return ap.get(n) or conj.get(n)
    subjects = set()
    for m in mothers:
        r = rng.random()
        c = cc(m)
        if c and r < 0.6 and c not in subjects:
            subjects.add(c)
            src.append({"k": "CDecay", "m": c})
        elif r < 0.7 and m not in subjects:       # Decay takes precedence over CDecay of the same name
            subjects.add(m)
            src.append({"k": "CDecay", "m": m})
    if rng.random() < 0.3:                         # CDecay without any source table
        x = rng.choice(pairs)
        if x not in subjects and x not in mothers and conj[x] not in mothers:
            subjects.add(x)
            src.append({"k": "CDecay", "m": x})
    if mothers and rng.random() < 0.4:             # a copy used as the source of a CDecay
        old = rng.choice(mothers)
        src.append({"k": "CopyDecay", "m": "MyCopy", "src": old})
        src.append({"k": "ChargeConj", "m": "MyCopy", "src": "MyantiCopy"})
        src.append({"k": "CDecay", "m": "MyantiCopy"})
    # any order: keep each Alias before nothing in particular - the parser reads the whole file first
    body = src[:]
    rng.shuffle(body)
    names = set()
    for s in body:
        names.add(s["m"])
        if "src" in s:
            names.add(s["src"])
        for ln in s.get("lines", []):
            names.update(ln["ds"])
    base = {n: conj[n] for n in names if conj.get(n)}
    return body, base, True


def gen_tables(rng: random.Random, big: bool):
    """Acyclic table sets beyond the TLC universe: up to 6 mothers, up to 6 lines, up to 5 daughters,
    repeated decaying daughters, empty blocks, decaying aliases (two aliases of one particle included)."""
    nm = rng.randint(1, 6 if big else 4)
    mothers = [f"P{i}" for i in range(nm)]
    leaves = [f"d{i}" for i in range(4)]
    src = []
    for i, m in enumerate(mothers):
        lower = mothers[i + 1:]
        lines = []
        for _ in range(rng.choice([0, 1, 2, 3, 4, 6] if big else [0, 1, 2, 4])):
            ds = []
            for _ in range(rng.randint(0, 5 if big else 3)):
                ds.append(rng.choice(lower) if lower and rng.random() < 0.5 else rng.choice(leaves))
            if lower and rng.random() < 0.3:
                x = rng.choice(lower)
                ds += [x, x]
            lines.append({"bf": f"n{rng.randint(1, 6)}", "ds": ds, "ph": rng.random() < 0.3, "mk": "model",
                          "mn": f"M{rng.randint(1, 3)}", "ps": _params(rng, 2, ["w0", "w1"], ["n1", "n2"])})
        src.append({"k": "Decay", "m": m, "lines": lines})
    rng.shuffle(src)
    # aliases: decaying names shown under the particle they alias; sometimes two aliases of the same particle
    targets = ["T0", "T1"]
    for m in mothers[1:]:
        if rng.random() < 0.4:
            src.insert(rng.randint(0, len(src)), {"k": "Alias", "m": m, "src": rng.choice(targets)})
    if rng.random() < 0.3:
        src.append({"k": "Alias", "m": rng.choice(leaves), "src": "T2"})
    return src, mothers


def gen_c08(rng: random.Random, big: bool):
    """Decay blocks with several CopyDecay statements - two copies of one source, redefinitions of a copy,
    copies without a source, a copy used as the source of a CDecay"""
    mothers = [f"P{i}" for i in range(rng.randint(1, 4))]
    src = []
    for m in mothers:
        lines = []
        for _ in range(rng.randint(0, 4 if big else 2)):
            lines.append({"bf": f"n{rng.randint(1, 6)}", "ds": [rng.choice(["d0", "d1", "d2"] + mothers) for _ in range(rng.randint(0, 4))],
                          "ph": rng.random() < 0.3, "mk": "model", "mn": f"M{rng.randint(1, 3)}",
                          "ps": _params(rng, 3, ["w0", "w1"], ["n1", "n2", "n3"])})
        src.append({"k": "Decay", "m": m, "lines": lines})
    copies = [f"cp{i}" for i in range(4)]
    for _ in range(rng.randint(1, 5)):
        src.append({"k": "CopyDecay", "m": rng.choice(copies), "src": rng.choice(mothers + ["nosuch"])})
    if rng.random() < 0.5:
        c = rng.choice(copies)
        src.append({"k": "ChargeConj", "m": c, "src": c + "bar"})
        src.append({"k": "CDecay", "m": c + "bar"})
    if rng.random() < 0.3:
        src.append({"k": "Define", "m": "w0", "v": "n2"})
    rng.shuffle(src)
    return src, {}, True
