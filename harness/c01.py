"""C01 - decay tables read from a .dec file are exactly what the file states."""
from __future__ import annotations

import random

from . import tlc, decfam, decrand
from .core import Outcome, ensure_repo_on_path, finish, Machinery

PROP = "C01"


def corrupt(c):
    for t in c["obs"]["tables"]:
        for ln in t["lines"]:
            if ln["ds"]:
                ln["ds"] = list(reversed(ln["ds"])) + ["zz"]
                return True
    return False


def run(tier, seed, replay_path=None):
    ensure_repo_on_path()
    o = Outcome(PROP, tier, seed)
    rng = random.Random(seed)
    deep = tier == "thorough"
    wd = tlc.new_workdir("c01")
    try:
        if replay_path:
            import json
            c = json.load(open(replay_path))["case"]
            decfam.run_cases(PROP, [(c["src"], c.get("base") or {}, c.get("incl", True))], o, wd, "replay", seed)
            return finish(o)
        # S -> C: the exhaustive small universes of the specification (invariants checked on the way)
        files = decfam.tlc_files("C01", 2, 2, wd, o)
        if deep:
            files += decfam.tlc_files("C01", 4, 1, wd, o)
        else:
            files += decfam.tlc_files("C01", 3, 1, wd, o)
        sim = decfam.tlc_files("C01", 8, 2, wd, o, check=False, simulate=3000 if deep else 300, seed=seed)
        for inv in ("NeverDrop",):
            decfam.reachability("C01", inv, wd, o)
        o.notes["universe_files"] = len(files)
        if not deep and len(files) > 1500:
            k = len(files)
            off = seed % k
            step = k // 1500
            files = [files[(off + i * step) % k] for i in range(1500)]
            o.notes["universe_window"] = f"1500 files, rotating window offset {off} step {step}"
        else:
            o.exhaustive = True
        specs = [(f["src"], {}, True) for f in files + sim]
        cases, rej = decfam.run_cases(PROP, specs, o, wd, "judge replayed TLC-generated files (DecTrace)", seed)
        # C -> S: larger random files
        n = 4000 if deep else 400
        specs = [decrand.gen_c01(rng, big=(i % 3 == 0)) for i in range(n)]
        cases2, rej2 = decfam.run_cases(PROP, specs, o, wd, "judge recorded traces of random files (DecTrace)", seed + 1)
        for c in (cases2[:2] + cases[:1]):
            o.sample({"text": c["text"], "mothers_observed": c["obs"]["mothers"]})
        decfam.selftest_binding(PROP, [c for i, c in enumerate(cases) if i not in rej], wd, o, corrupt)
        o.rule = ("abstract .dec files (TLC universe DecGen/C01 + seeded random files up to 40 statements) rendered with "
                  "labels/literals/model names drawn from the pools, parsed by the real DecFileParser and judged by "
                  "DecTrace.tla; distinct = distinct abstract files")
        o.assumptions = ["float(literal) is the correctly rounded value of the literal's exact rational",
                         "labels that are number-led, start with PHOTOS or equal a model name are outside the label language"]
    finally:
        tlc.cleanup(wd)
    return finish(o)
