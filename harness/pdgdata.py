"""Reference data exported from the installed `particle` package: the EvtGen and
PDG name tables with ids, and charge conjugation computed *by rule from the ids*
(negate the id; the same name for self-conjugate particles), independently of
decaylanguage.utils.particleutils.charge_conjugate_name."""
from __future__ import annotations

from functools import lru_cache


@lru_cache(maxsize=1)
def tables():
    from particle import Particle
    from particle.converters import EvtGenName2PDGIDBiMap, PDG2EvtGenNameMap, EvtGen2PDGNameMap
    from particle.converters.bimap import DirectionalMaps

    bimap = EvtGenName2PDGIDBiMap
    evt = {}            # name -> {"id": int, "sc": True|False|"na"}
    str_keys = [k for k in list(bimap._to_map.keys()) + list(bimap._from_map.keys()) if isinstance(k, str)]
    for n in str_keys:
        i = int(bimap[n])
        try:
            sc = bool(Particle.from_pdgid(i).is_self_conjugate)
        except Exception:
            sc = "na"
        evt[n] = {"id": i, "sc": sc}
    id2name = {v["id"]: k for k, v in evt.items()}

    def conj_evt(n):
        if n not in evt:
            return None
        if evt[n]["sc"] is True:
            return n
        return id2name.get(-evt[n]["id"])
    evt_conj = {n: conj_evt(n) for n in evt}

    # PDG names: every name PDG2EvtGenNameMap knows
    p2e = PDG2EvtGenNameMap
    pdg_keys = list(p2e.keys())
    pdg = {}
    for pn in pdg_keys:
        try:
            en = p2e[pn]
        except Exception:
            continue
        pdg[pn] = en
    e2p = {}
    for en in evt:
        try:
            e2p[en] = EvtGen2PDGNameMap[en]
        except Exception:
            pass
    return {"evt": evt, "evt_conj": evt_conj, "pdg2evt": pdg, "evt2pdg": e2p, "id2name": id2name}


if __name__ == "__main__":
    import sys
    sys.path.insert(0, "/repo/src")
    t = tables()
    print(len(t["evt"]), "evt names;", sum(1 for v in t["evt_conj"].values() if v is None), "without conjugate;",
          sum(1 for n, v in t["evt_conj"].items() if v == n), "self-conjugate;", len(t["pdg2evt"]), "pdg names;",
          len(t["evt2pdg"]), "evt->pdg")
