"""Entry point: bin/check <Cnn> [--tier quick|thorough] [--replay path]."""
from __future__ import annotations

import argparse
import importlib
import os
import sys
import traceback

from .core import Machinery, seed_from_env
from .tlc import TLCError


def main(argv=None) -> int:
    ap = argparse.ArgumentParser()
    ap.add_argument("prop")
    ap.add_argument("--tier", default=os.environ.get("VERIF_TIER", "quick"), choices=["quick", "thorough"])
    ap.add_argument("--replay", default=None)
    a = ap.parse_args(argv)
    os.environ.setdefault("PYTHONHASHSEED", "0")
    try:
        mod = importlib.import_module(f"harness.{a.prop.lower()}")
    except ModuleNotFoundError as e:
        print(f"MACHINERY: no check for {a.prop}: {e}")
        return 2
    try:
        return mod.run(a.tier, seed_from_env(), a.replay)
    except (Machinery, TLCError) as e:
        print(f"MACHINERY property={a.prop}: {e}")
        return 2
    except Exception:
        traceback.print_exc()
        print(f"MACHINERY property={a.prop}: unexpected exception in the harness")
        return 2


if __name__ == "__main__":
    sys.exit(main())
