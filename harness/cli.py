"""Entry point: bin/check <Cnn> [--tier quick|thorough] [--replay path]."""
from __future__ import annotations

import argparse
import importlib
import os
import sys
import traceback

from .core import Machinery, seed_from_env, CodeHangFound, REPLAYS
from .tlc import TLCError


def main(argv=None) -> int:
    ap = argparse.ArgumentParser()
    ap.add_argument("prop")
    ap.add_argument("--tier", default=os.environ.get("VERIF_TIER", "quick"), choices=["quick", "thorough"])
    ap.add_argument("--replay", default=None)
    a = ap.parse_args(argv)
    os.environ.setdefault("PYTHONHASHSEED", "0")
    try:
        mod = importlib.import_module(f"harness.{a.prop.lower()}")
    except ModuleNotFoundError as e:
        print(f"MACHINERY: no check for {a.prop}: {e}")
        return 2
    try:
        return mod.run(a.tier, seed_from_env(), a.replay)
    except CodeHangFound as e:
        import json
        d = REPLAYS / a.prop
        d.mkdir(parents=True, exist_ok=True)
        p = d / "hang.json"
        p.write_text(json.dumps({"property": a.prop, "clause": "code-under-test-does-not-return",
                                 "case": {"hang": True}, "items": [repr(x)[:2000] for x in e.items[:5]]}, indent=1))
        print(f"VIOLATION property={a.prop} replay={p}  clause=code-under-test-does-not-return ({e})")
        return 1
    except (Machinery, TLCError) as e:
        print(f"MACHINERY property={a.prop}: {e}")
        return 2
    except Exception:
        text = traceback.format_exc()
        sys.stderr.write(text)
        where = raised_in_code_under_test(text)
        if where:
            # the library raised where every harness step relies on it to answer (on the unchanged tree it does):
            # that is an observation about the code, not a failure of the machinery
            import json
            d = REPLAYS / a.prop
            d.mkdir(parents=True, exist_ok=True)
            p = d / "raised.json"
            p.write_text(json.dumps({"property": a.prop, "clause": "code-under-test-raised-where-an-answer-is-required",
                                     "case": {"raised_at": where}, "traceback": text[-6000:]}, indent=1))
            print(f"VIOLATION property={a.prop} replay={p}  clause=code-under-test-raised-where-an-answer-is-required ({where})")
            return 1
        print(f"MACHINERY property={a.prop}: unexpected exception in the harness")
        return 2


def raised_in_code_under_test(tb_text: str):
    """Of the frames that belong to the harness or to the library, is the innermost one the library's?
    (For exceptions coming out of a worker process the remote traceback, which is part of the text, is what counts.)"""
    import re
    from .core import REPO
    frames = re.findall(r'File "([^"]+)", line (\d+), in (\S+)', tb_text)
    remote = tb_text.find('"""')
    if remote >= 0:
        end = tb_text.find('"""', remote + 3)
        frames = re.findall(r'File "([^"]+)", line (\d+), in (\S+)', tb_text[remote:end if end > 0 else None]) or frames
    lib = str(REPO) + "/src/decaylanguage/"
    ours = [(f, ln, fn) for f, ln, fn in frames if f.startswith(lib) or "/harness/" in f]
    if ours and ours[-1][0].startswith(lib):
        f, ln, fn = ours[-1]
        return f"{f[len(str(REPO)) + 1:]}:{ln} in {fn}"
    return None


if __name__ == "__main__":
    sys.exit(main())
