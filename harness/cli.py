"""Entry point: bin/check <Cnn> [--tier quick|thorough] [--replay path]."""
from __future__ import annotations

import argparse
import importlib
import os
import sys
import traceback

from .core import Machinery, seed_from_env, CodeHangFound, REPLAYS
from .tlc import TLCError


def main(argv=None) -> int:
    ap = argparse.ArgumentParser()
    ap.add_argument("prop")
    ap.add_argument("--tier", default=os.environ.get("VERIF_TIER", "quick"), choices=["quick", "thorough"])
    ap.add_argument("--replay", default=None)
    a = ap.parse_args(argv)
    os.environ.setdefault("PYTHONHASHSEED", "0")
    try:
        mod = importlib.import_module(f"harness.{a.prop.lower()}")
    except ModuleNotFoundError as e:
        print(f"MACHINERY: no check for {a.prop}: {e}")
        return 2
    try:
        return mod.run(a.tier, seed_from_env(), a.replay)
    except CodeHangFound as e:
        import json
        d = REPLAYS / a.prop
        d.mkdir(parents=True, exist_ok=True)
        p = d / "hang.json"
        p.write_text(json.dumps({"property": a.prop, "clause": "code-under-test-does-not-return",
                                 "case": {"hang": True}, "items": [repr(x)[:2000] for x in e.items[:5]]}, indent=1))
        print(f"VIOLATION property={a.prop} replay={p}  clause=code-under-test-does-not-return ({e})")
        return 1
    except (Machinery, TLCError) as e:
        print(f"MACHINERY property={a.prop}: {e}")
        return 2
    except Exception:
        traceback.print_exc()
        print(f"MACHINERY property={a.prop}: unexpected exception in the harness")
        return 2


if __name__ == "__main__":
    sys.exit(main())
