"""Growth beyond the listed properties (DESIGN.md section 11): specifications of further behaviour of the library,
model-checked and replayed into the code like the property checks, but *not* registered in MANIFEST.json (no
listed property owns their verdicts).  usage: python -m harness.growth [lifecycle] [chainqueries] [modeview] [finalstate] [amptree] [decwarnings] [syntaxneg]"""
from __future__ import annotations

import io
import json
import sys
import warnings
from contextlib import redirect_stdout

from . import tlc
from .core import ensure_repo_on_path


def lifecycle():
    ensure_repo_on_path()
    from decaylanguage import DecFileParser
    from decaylanguage.dec.dec import DecFileNotParsed
    wd = tlc.new_workdir("life")
    bad, n = [], 0
    try:
        for usesx in (True, False):
            cfg = tlc.cfg_text(constants=dict(UsesX=usesx, MaxLen=5), invariants=["AnswersOnlyAfterParse", "RegisteredBeforeParseIsKnown"])
            r = tlc.run("DecLifecycle", cfg, workdir=wd)
            print(f"DecLifecycle UsesX={usesx}: {r.distinct} states, violated={r.violated}")
            for rec in r.by_tag("life"):
                b = rec["v"]
                text = "Decay A\n1.0 x y " + ("MYMODEL 1.0" if b["usesx"] else "PHSP") + ";\nEnddecay\n"
                p = DecFileParser.from_string(text) if b["kind"] == "string" else DecFileParser()
                n += 1
                for i, st in enumerate(b["hist"]):
                    out = "ok"
                    with warnings.catch_warnings(record=True) as w:
                        warnings.simplefilter("always")
                        try:
                            if st["op"] == "grammar":
                                (p.grammar if i % 2 else p.grammar_info)()
                            elif st["op"] == "register":
                                p.load_additional_decay_models("MYMODEL")
                            elif st["op"] == "parse":
                                p.parse()
                                if any("re-parsed" in str(x.message) for x in w):
                                    out = "ok-with-reparse-warning"
                            else:
                                p.list_decay_mother_names()
                        except DecFileNotParsed:
                            out = "not-parsed"
                        except Exception:  # noqa: BLE001
                            out = "error-with-reparse-warning" if any("re-parsed" in str(x.message) for x in w) else "error"
                    if out != st["out"]:
                        bad.append({"kind": b["kind"], "usesx": b["usesx"], "history": b["hist"][: i + 1], "observed": out})
                        break
    finally:
        tlc.cleanup(wd)
    print(f"lifecycle: {n} behaviours replayed, {len(bad)} disagreement(s)")
    for b in bad[:5]:
        print("  DISAGREEMENT", json.dumps(b))
    return 1 if bad else 0


def _chain_case(args):
    """build the real chain of one abstract chain, record the plain queries and the tree print"""
    import random
    from . import chainio
    cid, c, seed = args
    rng = random.Random(seed)
    c = chainio.norm_chain(c)
    cz = chainio.ChainCZ(rng, chainio.chain_names(c))
    dc = chainio.build_chain(cz, c, rng=rng)
    buf = io.StringIO()
    with redirect_stdout(buf):
        dc.print_as_tree()
    lines = []
    for raw in buf.getvalue().splitlines():
        k = raw.rfind("+--> ")
        if k < 0:
            lines.append({"pre": "", "arrow": False, "name": cz.rname(raw)})
        else:
            lines.append({"pre": raw[:k], "arrow": True, "name": cz.rname(raw[k + 5:])})
    obs = {"ndecays": dc.ndecays, "bf": cz.rbf(dc.bf), "top_is_mothers": dc.top_level_decay() is dc.decays[dc.mother],
           "lens": [[cz.rname(n), len(dm)] for n, dm in dc.decays.items()], "lines": lines}
    return {"c": c, "rank": cz.rank, "obs": obs, "printed": buf.getvalue()}


def chainqueries(nd=3, mb=2, extra=400):
    """ChainQueries.tla: lemma + refutation by TLC, every chain of the universe replayed and judged"""
    import random
    ensure_repo_on_path()
    from .core import pmap
    from .c12 import random_chain
    wd = tlc.new_workdir("chq")
    rc = 0
    try:
        cfg = tlc.cfg_text(constants=dict(Mode="gen", NDecay=nd, MaxBag=mb), invariants=["AgreeWhenShallow", "SameNodes"])
        r = tlc.run("ChainQueries", cfg, workdir=wd)
        gen = [x["v"] for x in r.by_tag("case")]
        bad = sum(1 for g in gen if not g["drawn_as_intended"])
        print(f"ChainQueries gen NDecay={nd} MaxBag={mb}: {r.distinct} states, {len(gen)} chains, violated={r.violated}; "
              f"{bad} chains are not drawn as documented (named deviation)")
        if r.violated:
            rc = 1
        r2 = tlc.run("ChainQueries", tlc.cfg_text(constants=dict(Mode="gen", NDecay=nd, MaxBag=mb), invariants=["CodeIsIntended"]),
                     workdir=wd, keep_records=False)
        if "CodeIsIntended" not in r2.violated:
            print("  NOTE: CodeIsIntended is no longer refuted in the model")
        rng = random.Random(1)
        chains = [g["c"] for g in gen] + [random_chain(rng, 5) for _ in range(extra)]
        cases = pmap(_chain_case, [(i, c, 7 * i + 1) for i, c in enumerate(chains)])
        tf = wd / "trace.json"
        tf.write_text(json.dumps([{k: v for k, v in c.items() if k != "printed"} for c in cases]))
        rj = tlc.run("ChainQueries", tlc.cfg_text(constants=dict(Mode="trace", NDecay=1, MaxBag=1)), workdir=wd,
                     env={"TRACE_FILE": str(tf)}, timeout=3000)
        acc = {x["tid"] for x in rj.by_tag("ACCEPT")}
        rej = {x["tid"] for x in rj.by_tag("REJECT")}
        if acc | rej != set(range(1, len(cases) + 1)) or acc & rej:
            print(f"  MACHINERY: verdicts not total ({rj.stdout_path})")
            return 2
        print(f"chainqueries: {len(cases)} chains replayed ({len(gen)} enumerated + {extra} random), {len(rej)} rejected")
        fails = {}
        for x in rj.by_tag("FAIL"):
            fails.setdefault(x["tid"], []).append(x)
        for t in sorted(rej)[:5]:
            print("  DISAGREEMENT", json.dumps({"clauses": [f["clause"] for f in fails.get(t, [])], "chain": cases[t - 1]["c"],
                                                 "printed": cases[t - 1]["printed"]}))
        if rej:
            rc = 1
        # binding self test: one corrupted prefix must be rejected
        good = next((c for i, c in enumerate(cases) if (i + 1) in acc and len(c["obs"]["lines"]) > 2), None)
        if good:
            m = json.loads(json.dumps({k: v for k, v in good.items() if k != "printed"}))
            m["obs"]["lines"][-1]["pre"] += " "
            tf.write_text(json.dumps([m]))
            rs = tlc.run("ChainQueries", tlc.cfg_text(constants=dict(Mode="trace", NDecay=1, MaxBag=1)), workdir=wd,
                         env={"TRACE_FILE": str(tf)})
            if not rs.by_tag("REJECT"):
                print("  MACHINERY: corrupted prefix accepted")
                return 2
            print("  binding self test: corrupted prefix rejected")
    finally:
        tlc.cleanup(wd)
    return rc


# ---------------------------------------------------------------------------------------------- ModeView
_MV_PARAMS = [[-0.108, 0.775, 0.149], ["dm", 0.5], "0.25 0.5", [1], (2.0, "x")]
_MV_VALUES = ["toy", 2019, {"B0": "gauss"}, ["a", 1], 0.5, None, True]


def _mode_case(args):
    """build the real DecayMode of one abstract mode through one of three constructor forms and record its views"""
    import copy
    import random
    import re
    from decaylanguage import DecayMode
    from decaylanguage.decay.decay import DaughtersDict
    from . import decio
    cid, m, seed = args
    rng = random.Random(seed)
    pool = [w for w in decio.label_pool() if decio.label_ok(w) and " " not in w]
    names = dict(zip(["x", "y", "z"], rng.sample(pool, 3)))
    back = {v: k for k, v in names.items()}
    rank = sorted(names, key=lambda a: names[a])            # the canonical order of a final state is that of the names
    bf = rng.choice([0.5, 1, 0.0124, 1e-7, 0.988228297, 0])
    model = rng.choice(["PHSP", "TAUHADNU", "VSS_BMIX"])
    pv = copy.deepcopy(rng.choice(_MV_PARAMS))
    keys = dict(zip(["k1", "k2", "k3"], rng.sample(["study", "year", "zfit", "note", "source_id"], 3)))
    vals = {k: copy.deepcopy(rng.choice(_MV_VALUES)) for k in keys}
    ds = [names[d] for d in m["ds"]]
    info = {}
    if m["model"] != "none":
        info["model"] = model
    if m["params"] == "empty":
        info["model_params"] = ""
    elif m["params"] == "none" and cid % 2:
        info["model_params"] = None
    elif m["params"] == "p1":
        info["model_params"] = pv
    for k, _ in m["extras"]:
        info[keys[k]] = vals[k]
    form = cid % 3
    if form == 0:
        dm = DecayMode(bf, " ".join(ds), **info)
    elif form == 1:
        dm = DecayMode(bf, DaughtersDict(ds), **copy.deepcopy(info))
    else:
        dm = DecayMode.from_dict({"bf": bf, "fs": list(ds), **copy.deepcopy(info)})
    before = (dm.bf, dm.daughters.to_list(), copy.deepcopy(dm.metadata))
    text = dm.describe()
    d = dm.to_dict()
    n = len(dm)
    st = str(dm)
    text2 = dm.describe()
    unchanged = (dm.bf, dm.daughters.to_list(), dm.metadata) == before and text2 == text and dm.to_dict() == d

    def rbf(t):
        return "b" if t.strip() in (f"{bf:<15.8g}".strip(), str(bf)) else "?" + t

    def rnames(xs):
        return [back.get(x, "?" + x) for x in xs]

    def rval(k, shown):
        return "v_" + k if shown == str(vals[k]) else "?" + shown
    rkeys = {v: k for k, v in keys.items()}
    lines = text.split("\n")
    obs = {"describe": {"head": {"daughters": ["?unreadable"], "bf": "?"}, "model": {"model": "?", "params": "?"}, "extras": [],
                        "has_extra_block": False, "ends_in_linebreak": text.endswith("\n")}}
    m1 = re.fullmatch(r"Daughters: (.*) , BF: (.*)", lines[0])
    if m1:
        obs["describe"]["head"] = {"daughters": rnames(m1.group(1).split()), "bf": rbf(m1.group(2))}
    m2 = re.fullmatch(r"    Decay model: (\S*) (.*)", lines[1]) if len(lines) > 1 else None
    if m2:
        shown = m2.group(2)
        obs["describe"]["model"] = {"model": "M1" if m2.group(1) == model else m2.group(1),
                                    "params": "p1" if shown == str(pv) else shown}
    rest = lines[2:]
    if rest and rest[0] == "    Extra info:":
        obs["describe"]["has_extra_block"] = True
        rest = rest[1:]
    for ln in rest:
        if ln == "":
            continue
        m3 = re.fullmatch(r"        ([^:]+): (.*)", ln)
        k = rkeys.get(m3.group(1)) if m3 else None
        obs["describe"]["extras"].append([k, rval(k, m3.group(2))] if k else ["?" + ln, "?"])
    dk = list(d.keys())
    obs["to_dict"] = {"keys": [rkeys.get(k, k) for k in dk], "bf": "b" if d.get("bf") == bf and type(d.get("bf")) is type(bf) else "?",
                      "fs": rnames(d.get("fs", ["?missing"])), "model": "M1" if d.get("model") == model else d.get("model"),
                      "params": "p1" if d.get("model_params") == pv and m["params"] == "p1" else d.get("model_params"),
                      "extras": [[rkeys[k], "v_" + rkeys[k] if d[k] == vals[rkeys[k]] else "?"] for k in dk if k in rkeys]}
    if not isinstance(obs["to_dict"]["params"], str):
        obs["to_dict"]["params"] = "?" + repr(obs["to_dict"]["params"])
    if not isinstance(obs["to_dict"]["model"], str):
        obs["to_dict"]["model"] = "?" + repr(obs["to_dict"]["model"])
    obs["len"] = n
    m4 = re.fullmatch(r"<DecayMode: daughters=(.*), BF=(.*)>", st)
    obs["str"] = {"daughters": rnames([] if m4 and m4.group(1) == "[]" else m4.group(1).split()) if m4 else ["?unreadable"],
                  "bf": rbf(m4.group(2)) if m4 else "?"}
    obs["unchanged"] = unchanged
    return {"m": m, "rank": [[a, i + 1] for i, a in enumerate(rank)], "obs": obs, "text": text, "form": form}


def modeview(maxds=3, maxextras=3):
    ensure_repo_on_path()
    from .core import pmap
    wd = tlc.new_workdir("mv")
    rc = 0
    try:
        cfg = tlc.cfg_text(constants=dict(Mode="gen", MaxDs=maxds, MaxExtras=maxextras), invariants=["ViewsAgree", "NoneIsEmpty"])
        r = tlc.run("ModeView", cfg, workdir=wd)
        gen = [x["v"] for x in r.by_tag("case")]
        print(f"ModeView gen MaxDs={maxds} MaxExtras={maxextras}: {r.distinct} states, {len(gen)} modes, violated={r.violated}")
        if r.violated:
            rc = 1
        r2 = tlc.run("ModeView", tlc.cfg_text(constants=dict(Mode="gen", MaxDs=maxds, MaxExtras=1), invariants=["DescribeIsCanonical"]),
                     workdir=wd, keep_records=False)
        print("  named deviation: describe() lists daughters by first occurrence, not in canonical order - "
              + ("refuted DescribeIsCanonical" if "DescribeIsCanonical" in r2.violated else "NOTE: no longer refuted in the model"))
        cases = pmap(_mode_case, [(i, m, 11 * i + 3) for i, m in enumerate(gen)])
        tf = wd / "trace.json"
        strip = lambda c: {k: v for k, v in c.items() if k not in ("text", "form")}          # noqa: E731
        tf.write_text(json.dumps([strip(c) for c in cases]))
        rj = tlc.run("ModeView", tlc.cfg_text(constants=dict(Mode="trace", MaxDs=1, MaxExtras=1)), workdir=wd,
                     env={"TRACE_FILE": str(tf)}, timeout=3000)
        acc = {x["tid"] for x in rj.by_tag("ACCEPT")}
        rej = {x["tid"] for x in rj.by_tag("REJECT")}
        if acc | rej != set(range(1, len(cases) + 1)) or acc & rej:
            print(f"  MACHINERY: verdicts not total ({rj.stdout_path})")
            return 2
        print(f"modeview: {len(cases)} modes built (three constructor forms) and judged, {len(rej)} rejected")
        fails = {}
        for x in rj.by_tag("FAIL"):
            fails.setdefault(x["tid"], []).append(x)
        for t in sorted(rej)[:5]:
            print("  DISAGREEMENT", json.dumps({"clauses": [f["clause"] for f in fails.get(t, [])], "mode": cases[t - 1]["m"],
                                                 "form": cases[t - 1]["form"], "text": cases[t - 1]["text"],
                                                 "diag": fails.get(t, [{}])[0].get("diag")}))
        if rej:
            rc = 1
        good = next((c for i, c in enumerate(cases) if (i + 1) in acc and len(c["obs"]["describe"]["extras"]) > 1), None)
        if good:
            mm = json.loads(json.dumps(strip(good)))
            mm["obs"]["describe"]["extras"].reverse()
            tf.write_text(json.dumps([mm]))
            rs = tlc.run("ModeView", tlc.cfg_text(constants=dict(Mode="trace", MaxDs=1, MaxExtras=1)), workdir=wd,
                         env={"TRACE_FILE": str(tf)})
            if not rs.by_tag("REJECT"):
                print("  MACHINERY: reordered extra lines accepted")
                return 2
            print("  binding self test: reordered extra lines rejected")
    finally:
        tlc.cleanup(wd)
    return rc


# ---------------------------------------------------------------------------------------------- FinalState
_FS_NAMES = [{"p": "K+", "pb": "K-", "s": "pi0"}, {"p": "D0", "pb": "anti-D0", "s": "gamma"}, {"p": "anti-B0", "pb": "B0", "s": "K_S0"},
             {"p": "Lambda_c+", "pb": "anti-Lambda_c-", "s": "J/psi"}, {"p": "nu_tau", "pb": "anti-nu_tau", "s": "eta'"}]


def _fs_replay(args):
    import copy
    from decaylanguage import DaughtersDict
    cid, beh = args
    nm = _FS_NAMES[cid % len(_FS_NAMES)]
    back = {v: k for k, v in nm.items()}

    def make(bag, form):
        flat = [nm[k] for k in ("p", "pb", "s") for _ in range(bag[k])]
        return [DaughtersDict(flat), DaughtersDict(" ".join(flat)), DaughtersDict({nm[k]: bag[k] for k in bag})][form % 3]

    def problems(x, bag, who):
        out = []
        want = sorted(nm[k] for k in bag for _ in range(bag[k]))
        got = {back.get(k, "?" + k): v for k, v in x.items() if v > 0}
        if got != {k: v for k, v in bag.items() if v > 0}:
            out.append(f"{who}: content {got}")
        if x.to_list() != want or x.to_string() != " ".join(want):
            out.append(f"{who}: to_list {x.to_list()} / to_string {x.to_string()!r}, expected {want}")
        if len(x) != len(want):
            out.append(f"{who}: len {len(x)}, expected {len(want)}")
        it = list(x)
        if sorted(it) != want or any(it[i] == it[j] and any(it[k] != it[i] for k in range(i, j)) for i in range(len(it)) for j in range(i, len(it))):
            out.append(f"{who}: iteration {it}")
        if not (x == DaughtersDict(want)) or (want and x == DaughtersDict(want[:-1])):
            out.append(f"{who}: equality with a fresh object of the same / another content")
        return out
    a, b = make(beh["init"]["r1"], cid), make(beh["init"]["r2"], cid + 1)
    for i, st in enumerate(beh["hist"]):
        op = st["op"]
        if op == "add_new":
            a = a + b
        elif op == "add_in_place":
            a += b
        elif op == "inc":
            a[nm[st["arg"]]] += 1
        elif op == "conj_new":
            a = a.charge_conjugate()
        elif op == "alias":
            b = a
        elif op == "copy":
            b = [DaughtersDict(a), copy.copy(a), copy.deepcopy(a), a.copy()][(cid + i) % 4]
        elif op == "swap":
            a, b = b, a
        bad = problems(a, st["r1"], "r1") + problems(b, st["r2"], "r2")
        if (a is b) != st["alias"]:
            bad.append(f"identity: a is b = {a is b}, expected {st['alias']}")
        if type(a).__name__ != "DaughtersDict" or type(b).__name__ != "DaughtersDict":
            bad.append(f"types {type(a).__name__} / {type(b).__name__}")
        if bad:
            return {"cid": cid, "step": i, "op": op, "history": [s_["op"] + (":" + s_["arg"] if s_["arg"] else "") for s_ in beh["hist"][: i + 1]],
                    "problems": bad[:4]}
    return None


def finalstate(maxlen=4):
    ensure_repo_on_path()
    from .core import pmap
    wd = tlc.new_workdir("fst")
    rc = 0
    try:
        cfg = tlc.cfg_text(constants=dict(MaxLen=maxlen, MaxCount=6), invariants=["TypeOK", "AliasMeansEqual", "ConjLaws", "AddLaws"],
                           properties=["OtherUntouched"])
        r = tlc.run("FinalState", cfg, workdir=wd)
        behs = [x["v"] for x in r.by_tag("beh")]
        print(f"FinalState MaxLen={maxlen}: {r.distinct} states, {len(behs)} behaviours, violated={r.violated}")
        if r.violated:
            rc = 1
        r2 = tlc.run("FinalState", tlc.cfg_text(constants=dict(MaxLen=3, MaxCount=6), invariants=["NeverSelfAdd"]), workdir=wd,
                     keep_records=False)
        if "NeverSelfAdd" not in r2.violated:
            print("  MACHINERY: an object added to itself is never reached")
            return 2
        if len(behs) > 40000:
            step = len(behs) // 40000 + 1
            behs = behs[::step]
        bad = [x for x in pmap(_fs_replay, list(enumerate(behs)), chunk=200) if x]
        print(f"finalstate: {len(behs)} behaviours replayed on real DaughtersDict objects, {len(bad)} disagreement(s)")
        for x in bad[:5]:
            print("  DISAGREEMENT", json.dumps(x))
        if bad:
            rc = 1
        # binding self test: a behaviour whose expected content is corrupted must be reported
        if behs and not bad:
            m = json.loads(json.dumps(behs[0]))
            m["hist"][-1]["r1"]["s"] += 1
            if _fs_replay((0, m)) is None:
                print("  MACHINERY: corrupted expectation accepted")
                return 2
            print("  binding self test: corrupted expectation reported")
    finally:
        tlc.cleanup(wd)
    return rc


# ---------------------------------------------------------------------------------------------- AmpTree
_AMP_LEAF = {"a": ("K-", -321), "b": ("pi+", 211), "c": ("pi-", -211)}
_AMP_RES = {"R1": [("rho(770)0", 113), ("rho(1450)0", 100113), ("omega(782)0", 223), ("K*(892)bar0", -313)],     # J = 1
            "R2": [("PiPi00", 998101), ("PiPi10", 988101), ("PiPi20", 978101), ("KPi00", 998111), ("KPi10", 988111)],  # J = 0
            "R3": [("K(2)*(1430)bar-", -325)], "M": [("D0", 421)]}
_AMP_TAGS = {"t1": "GSpline.EFF", "t2": ["BW", "LASS.x", "Flatte"], "t3": ["kMatrix.pole.1", "kMatrix.prod.0"], "t4": ["FOCUS.Kpi", "FOCUS.I32"]}
_PRIMES = [2, 3, 5, 7, 11, 13]
_SPIN_IDS = {0: 211, 1: 2212, 2: 113, 3: 2224, 4: 225}


def _tokens(text):
    import re
    return [t for t in re.split(r"([\[\]{},;])", text) if t != ""]


def _amp_case(args):
    """one abstract tree -> AmpGen text -> the real AmplitudeChain; record the queries"""
    import random
    from particle import Particle
    from decaylanguage.modeling.amplitudechain import AmplitudeChain
    from . import ampio
    ampio.fast_lookup()
    AmplitudeChain.cartesian = False
    cid, tree, seed = args
    rng = random.Random(seed)
    used, conc, tags, primes, own_lines = set(), {}, {}, {}, []

    def pick(t, path):
        if t["name"] in _AMP_LEAF:
            return _AMP_LEAF[t["name"]]
        pool = [x for x in _AMP_RES[t["name"]] if x[0] not in used] or _AMP_RES[t["name"]]
        c = rng.choice(pool)
        used.add(c[0])
        return c

    def tag(ls):
        if ls["fam"] == "none":
            return None
        if ls["tag"] not in tags:
            v = _AMP_TAGS[ls["tag"]]
            tags[ls["tag"]] = v if isinstance(v, str) else rng.choice(v)
        return tags[ls["tag"]]

    def render(t, path, top=False):
        name, pid = pick(t, path)
        conc[path] = (name, pid)
        if not t["kids"]:
            return name
        tg = [x for x in (t["sf"] if t["sf"] != "-" else None, tag(t["ls"])) if x]
        body = name + ("[" + ";".join(tg) + "]" if tg else "") + "{" + ",".join(render(k, path + str(i + 1)) for i, k in enumerate(t["kids"])) + "}"
        if t["amp"] not in ("one", "top") and not top:
            primes[t["amp"]] = _PRIMES[len(primes)]
            own_lines.append(f"{body}   0 {primes[t['amp']]} 0   0 0 0")
            return name
        return body
    primes["top"] = _PRIMES[0]
    main = render(tree, "", top=True)
    text = "EventType D0 K- pi+ pi+ pi-\n" + f"{main}   2 {primes['top']} 0   2 0 0\n" + "\n".join(own_lines) + "\n"
    back = {}

    # particle name -> abstract name (several concrete names stand for one abstract name); filled after the read,
    # which is what loads the special K-matrix / S-wave particles into the particle table
    def walk(t, path):
        back[Particle.from_pdgid(conc[path][1]).name] = t["name"]
        for i, k in enumerate(t["kids"]):
            walk(k, path + str(i + 1))
    rtag = {v: k for k, v in tags.items()}

    def abstr(tok):
        if tok in "[]{},;" or tok in ("S", "P", "D"):
            return tok
        return back.get(tok) or rtag.get(tok) or "?" + tok
    obs = {"raised": "-"}
    try:
        lines, _, _, _ = AmplitudeChain.read_ampgen(text=text)
        walk(tree, "")
        if len(lines) != 1:
            return {"kind": "tree", "tree": tree, "tagged": True, "obs": {"raised": f"MACHINERY {len(lines)} lines"}, "text": text}
        ln = lines[0]

        def struct(x):
            if isinstance(x, list):
                return {"leaf": False, "n": "-", "kids": [struct(y) for y in x]}
            return {"leaf": True, "n": back.get(x.name, "?" + x.name), "kids": []}

        def node(v):
            lo, hi = v.L_range()
            try:
                e = v.ls_enum.name
            except RuntimeError:
                e = "error"
            return {"lrange": [int(2 * lo), int(2 * hi)], "L": int(2 * v.L), "lsenum": e}
        amp = ln.full_amp
        fa, rest = [], round(amp.real)
        for tok, pr in primes.items():
            k = 0
            while rest % pr == 0 and rest > 1:
                rest //= pr
                k += 1
            if k:
                fa.append([tok, k])
        if rest != 1 or abs(amp.imag) > 1e-9 or abs(amp.real - round(amp.real)) > 1e-9:
            fa.append(["?rest", 1])
        obs.update(str=[abstr(t) for t in _tokens(str(ln))], structure=struct(ln.structure),
                   vertexes=[[abstr(t) for t in _tokens(str(v))] for v in ln.vertexes], full_amp=fa,
                   nodes=[node(v) for v in [ln] + ln.vertexes])
    except Exception as e:  # noqa: BLE001
        obs["raised"] = type(e).__name__ + ": " + str(e)[:200]
    return {"kind": "tree", "tree": tree, "tagged": True, "obs": obs, "text": text}


def _api_case(args):
    from particle import Particle
    from decaylanguage.modeling.decay import ModelDecay
    cid, tree = args
    ids = {"a": -321, "b": 211, "c": -211, "R1": 113, "R2": 9010221, "M": 421}
    back = {Particle.from_pdgid(v).name: k for k, v in ids.items()}

    def mk(t):
        return ModelDecay(Particle.from_pdgid(ids[t["name"]]), [mk(k) for k in t["kids"]])

    def struct(x):
        if isinstance(x, list):
            return {"leaf": False, "n": "-", "kids": [struct(y) for y in x]}
        return {"leaf": True, "n": back.get(x.name, "?" + x.name), "kids": []}
    d = mk(tree)
    ab = lambda tok: tok if tok in "{}," else back.get(tok, "?" + tok)      # noqa: E731
    obs = {"raised": "-", "str": [ab(t) for t in _tokens(str(d))], "structure": struct(d.structure),
           "vertexes": [[ab(t) for t in _tokens(str(v))] for v in d.vertexes], "full_amp": [], "nodes": []}
    return {"kind": "tree", "tree": tree, "tagged": False, "obs": obs, "text": str(d)}


def _spin_case(args):
    from particle import Particle
    from decaylanguage.modeling.amplitudechain import AmplitudeChain
    cid, spins = args
    ps = [Particle.from_pdgid(_SPIN_IDS[s]) for s in spins]
    if [int(2 * p.J) for p in ps] != list(spins):
        return {"kind": "spins", "spins": list(spins), "obs": [-1, -1], "text": "MACHINERY reference spins"}
    lo, hi = AmplitudeChain(ps[0], [AmplitudeChain(ps[1]), AmplitudeChain(ps[2])]).L_range()
    return {"kind": "spins", "spins": list(spins), "obs": [int(2 * lo), int(2 * hi)], "text": str(spins)}


def amptree(sample=2500):
    """AmpTree.tla: lemmas / refutations by TLC; trees and spin triples replayed on the real classes and judged"""
    import random
    ensure_repo_on_path()
    from .core import pmap
    wd = tlc.new_workdir("ampt")
    rc = 0
    try:
        emitted = {}
        for mode, inv, refute in (("spins", ["LRangeAgreesWithAZeroSpin", "LRangeUpperEnd", "LRangeLowerEndNotBelow"], "LRangeIsTriangleRule"),
                                  ("api", ["VertexesAgreeOnTwoBodyTrees", "StrLeavesAreStructureLeaves"], "VertexesAreAllVertexes"),
                                  ("gen", ["VertexesAgreeOnTwoBodyTrees", "StrLeavesAreStructureLeaves"], None)):
            r = tlc.run("AmpTree", tlc.cfg_text(constants=dict(Mode=mode, MaxTwoJ=4), invariants=inv), workdir=wd, timeout=900)
            emitted[mode] = [x["v"]["v"] for x in r.by_tag("case")]
            print(f"AmpTree {mode}: {len(emitted[mode])} cases, lemmas {inv} violated={r.violated}")
            if r.violated:
                rc = 1
            if refute:
                r2 = tlc.run("AmpTree", tlc.cfg_text(constants=dict(Mode=mode, MaxTwoJ=4), invariants=[refute]), workdir=wd,
                             keep_records=False)
                print(f"  {refute}: " + ("refuted (named deviation of the code)" if refute in r2.violated else "NOT refuted any more"))
        rng = random.Random(1)
        gen = emitted["gen"]
        if len(gen) > sample:
            gen = rng.sample(gen, sample)
        cases = pmap(_amp_case, [(i, t, 13 * i + 5) for i, t in enumerate(gen)], chunk=16)
        cases += pmap(_api_case, [(i, t) for i, t in enumerate(emitted["api"])])
        cases += pmap(_spin_case, [(i, tuple(t)) for i, t in enumerate(emitted["spins"])])
        mach = [c for c in cases if str(c["obs"]).find("MACHINERY") >= 0 or str(c.get("text", "")).startswith("MACHINERY")]
        if mach:
            print("  MACHINERY:", mach[0])
            return 2
        raised = [c for c in cases if c["kind"] == "tree" and c["obs"].get("raised", "-") != "-"]
        for c in raised[:3]:
            print("  DISAGREEMENT (raised)", c["obs"]["raised"], c["text"])
        if raised:
            rc = 1
        ok = [c for c in cases if c not in raised]
        tf = wd / "trace.json"
        tf.write_text(json.dumps([{k: v for k, v in c.items() if k != "text"} for c in ok]))
        rj = tlc.run("AmpTree", tlc.cfg_text(constants=dict(Mode="trace", MaxTwoJ=4)), workdir=wd, env={"TRACE_FILE": str(tf)}, timeout=3000)
        acc = {x["tid"] for x in rj.by_tag("ACCEPT")}
        rej = {x["tid"] for x in rj.by_tag("REJECT")}
        if acc | rej != set(range(1, len(ok) + 1)) or acc & rej:
            print(f"  MACHINERY: verdicts not total ({rj.stdout_path})")
            return 2
        print(f"amptree: {len(ok)} cases replayed ({len(gen)} AmpGen trees, {len(emitted['api'])} API trees, "
              f"{len(emitted['spins'])} spin triples), {len(rej)} rejected")
        fails = {}
        for x in rj.by_tag("FAIL"):
            fails.setdefault(x["tid"], []).append(x)
        for t in sorted(rej)[:5]:
            print("  DISAGREEMENT", json.dumps({"clauses": [f["clause"] for f in fails.get(t, [])], "diag": fails.get(t, [{}])[0].get("diag"),
                                                 "text": ok[t - 1]["text"]})[:1500])
        if rej:
            rc = 1
        good = next((c for i, c in enumerate(ok) if (i + 1) in acc and c["kind"] == "tree" and c["tagged"] and c["obs"]["vertexes"]), None)
        if good:
            m = json.loads(json.dumps({k: v for k, v in good.items() if k != "text"}))
            m["obs"]["nodes"][0]["L"] += 2
            tf.write_text(json.dumps([m]))
            rs = tlc.run("AmpTree", tlc.cfg_text(constants=dict(Mode="trace", MaxTwoJ=4)), workdir=wd, env={"TRACE_FILE": str(tf)})
            if not rs.by_tag("REJECT"):
                print("  MACHINERY: corrupted L accepted")
                return 2
            print("  binding self test: corrupted L rejected")
    finally:
        tlc.cleanup(wd)
    return rc


# ---------------------------------------------------------------------------------------------- DecWarnings
def _classify_warning(msg):
    """-> (class, [names]) for the diagnostics of parse()"""
    import re
    m = re.search(r"redefined in the input \.dec file with 'Decay': (.*)!\nAll but", msg, re.S)
    if m:
        return "redefined", m.group(1).split(", ")
    m = re.search(r"'CopyDecay' statement\(s\) of following particle\(s\) not found:\n(.*)\.\nSkipping", msg, re.S)
    if m:
        return "copymiss", m.group(1).split("\n")
    m = re.search(r"with both 'Decay' and 'CDecay': (.*)!\nThe 'CDecay'", msg, re.S)
    if m:
        return "both", m.group(1).split(", ")
    m = re.search(r"'CDecay' statement\(s\) of following particle\(s\) not found:\n(.*)\.\nSkipping", msg, re.S)
    if m:
        return "conjmiss", m.group(1).split("\n")
    if "self-conjugate particle" in msg:
        return "selfconj", []
    return "other", [msg[:120]]


def _warn_case(args):
    import random
    from . import decio
    cid, src, base, incl, seed = args
    cz = decio.Concretiser(random.Random(seed), base=base, conj_matters=True)
    text = decio.render_file(cz, src)
    p, err, warns = decio.parse_text(text, incl)
    obs = {"fails": p is None, "redefined": [], "copymiss": [], "both": [], "conjmiss": [], "other": [], "selfconj": 0}
    for w in warns:
        k, names = _classify_warning(w)
        if k == "selfconj":
            obs["selfconj"] += 1
        elif k == "other":
            obs["other"] += names
        else:
            obs[k] += [cz.rname(n) for n in names]
    return {"src": src, "base": base, "incl": incl, "obs": obs, "text": text, "warnings": warns}


def decwarnings(sim=600):
    """parse() diagnostics: lemma NothingDroppedSilently on the DecGen universes, recorded warnings judged by DecWarnings.tla"""
    import random
    ensure_repo_on_path()
    from .core import pmap, Outcome
    from . import decfam, decrand
    wd = tlc.new_workdir("warn")
    rc = 0
    try:
        files = []
        for profile, ms, ml in (("C03", 3, 1), ("C01", 3, 1)):
            cfg = tlc.cfg_text(constants=dict(Profile=profile, MaxStmts=ms, MaxLines=ml, DoEmit=True, Build=False),
                               invariants=["NothingDroppedSilently"])
            r = tlc.run("DecGen", cfg, workdir=wd, timeout=1800)
            got = [x["v"] for x in r.by_tag("case")]
            print(f"DecGen {profile} stmts<={ms}: {r.distinct} states, {len(got)} files, NothingDroppedSilently violated={r.violated}")
            if r.violated:
                rc = 1
            files += got
        dummy = Outcome("G", "quick", 1)
        files += decfam.tlc_files("C03", 9, 2, wd, dummy, check=False, simulate=sim, seed=1)
        rng = random.Random(1)
        if len(files) > 6000:
            files = rng.sample(files, 6000)
        specs = [(f["src"], f["base"], f["incl"]) for f in files]
        # longer random files over real EvtGen names (the C03 / C08 generators)
        for i in range(300):
            specs.append(decrand.gen_c03(rng, big=(i % 2 == 0)))
        cases = pmap(_warn_case, [(i, s, b, inc, 17 * i + 3) for i, (s, b, inc) in enumerate(specs)])
        tf = wd / "trace.json"
        tf.write_text(json.dumps([{k: v for k, v in c.items() if k not in ("text", "warnings")} for c in cases]))
        rj = tlc.run("DecWarnings", tlc.cfg_text(), workdir=wd, env={"TRACE_FILE": str(tf)}, timeout=3000)
        acc = {x["tid"] for x in rj.by_tag("ACCEPT")}
        rej = {x["tid"] for x in rj.by_tag("REJECT")}
        if acc | rej != set(range(1, len(cases) + 1)) or acc & rej:
            print(f"  MACHINERY: verdicts not total ({rj.stdout_path})")
            return 2
        seen = {k: sum(1 for c in cases if c["obs"][k]) for k in ("redefined", "copymiss", "both", "conjmiss", "selfconj")}
        print(f"decwarnings: {len(cases)} files replayed, {len(rej)} rejected; files with a warning of each class: {seen}")
        fails = {}
        for x in rj.by_tag("FAIL"):
            fails.setdefault(x["tid"], []).append(x)
        for t in sorted(rej)[:5]:
            print("  DISAGREEMENT", json.dumps({"clauses": [f["clause"] for f in fails.get(t, [])], "diag": fails.get(t, [{}])[0].get("diag"),
                                                 "text": cases[t - 1]["text"], "warnings": cases[t - 1]["warnings"]})[:1800])
        if rej:
            rc = 1
        good = next((c for i, c in enumerate(cases) if (i + 1) in acc and c["obs"]["conjmiss"]), None)
        if good:
            m = json.loads(json.dumps({k: v for k, v in good.items() if k not in ("text", "warnings")}))
            m["obs"]["conjmiss"] = []
            tf.write_text(json.dumps([m]))
            rs = tlc.run("DecWarnings", tlc.cfg_text(), workdir=wd, env={"TRACE_FILE": str(tf)})
            if not rs.by_tag("REJECT"):
                print("  MACHINERY: dropped warning accepted")
                return 2
            print("  binding self test: dropped warning rejected")
    finally:
        tlc.cleanup(wd)
    return rc


# ---------------------------------------------------------------------------------------------- DecSyntaxNeg
_ARITY = {"Alias": ["LABEL", "LABEL"], "ChargeConj": ["LABEL", "LABEL"], "CopyDecay": ["LABEL", "LABEL"],
          "Define": ["LABEL", "NUM"], "CDecay": ["LABEL"], "yesPhotos": [], "noPhotos": [], "Decay": ["LABEL"], "ModelAlias": ["LABEL"]}


def _canon_text(cz, denote):
    """canonical .dec text of a statement list as Denote gives it"""
    def label(v):
        # a word of another kind standing where a LABEL is read (DecSyntax.LabelText)
        for pre, f in (("KW:", str), ("NUM:", cz.lit), ("MODEL:", cz.model), ("PHOTOS:", str)):
            if v.startswith(pre):
                return f(v[len(pre):])
        return cz.name(v)

    def val(kind, v):
        return label(v) if kind == "LABEL" else cz.lit(v) if kind == "NUM" else cz.model(v) if kind == "MODEL" else v

    def body(ln):
        head = cz.model(ln["mn"]) if ln["mk"] == "model" else label(ln["mn"])
        return " ".join([head] + [val(x["k"], x["v"]) for x in ln["ps"]]) + ";"
    out = []
    for st in denote:
        k = st["k"]
        args = [val(kind, v) for kind, v in zip(_ARITY[k], st["args"])]
        if k == "Decay":
            out.append("Decay " + args[0])
            for ln in st["lines"]:
                out.append("  " + " ".join([cz.lit(ln["bf"])] + [label(d) for d in ln["ds"]] + (["PHOTOS"] if ln["ph"] else [])
                                           + [body(ln)]))
            out.append("Enddecay")
        elif k == "ModelAlias":
            out.append("ModelAlias " + args[0] + " " + body(st["lines"][0]))
        else:
            out.append(" ".join([k] + args))
    return "\n".join(out) + "\n"


def _neg_case(args):
    import random
    from . import decio, c02
    cid, rec, seed = args
    cz = decio.Concretiser(random.Random(seed), readable=True)
    text = c02.render_items(cz, rec["items"], random.Random(seed))

    def snap(t):
        p, err, _ = decio.parse_text(t)
        if p is None:
            return None, type(err).__name__
        return decio.full_snapshot(p), None
    s1, e1 = snap(text)
    out = {"script": rec["script"], "base": rec["base"], "accepts": rec["accepts"], "undefined": rec["undefined"],
           "aliasofalias": rec["aliasofalias"], "text": text, "raised": e1, "verdict": "ok", "detail": ""}
    expect_refusal = (not rec["accepts"]) or rec["undefined"]
    if rec["aliasofalias"]:
        out["verdict"] = "not-judged"          # alias of an alias: outside every statement (DESIGN section 4)
    elif expect_refusal and s1 is not None:
        out["verdict"] = "accepted-a-text-outside-the-language"
    elif not expect_refusal and s1 is None:
        out["verdict"] = "refused-a-text-of-the-language"
    elif not expect_refusal:
        ctext = _canon_text(cz, rec["denote"])
        s2, e2 = snap(ctext)
        out["canon"] = ctext
        if s2 is None:
            out["verdict"], out["detail"] = "MACHINERY canonical text refused", e2
        else:
            d = c02.first_diff(s2, s1)
            if d:
                out["verdict"], out["detail"] = "read-differently-from-what-the-automaton-denotes", d
    return out


def syntaxneg(maxedits=2):
    """DecSyntaxNeg.tla: damaged base files; the real parser must agree with the item automaton on both sides of the border"""
    ensure_repo_on_path()
    from .core import pmap
    wd = tlc.new_workdir("neg")
    rc = 0
    try:
        recs = []
        for base in (1, 2):
            for me in range(1, maxedits + 1):
                cfg = tlc.cfg_text(init="Init", next_="NegNext", constants=dict(Base=base, MaxEdits=me, EmitMode="none"),
                                   invariants=["NeutralDamageIsNeutral"])
                r = tlc.run("DecSyntaxNeg", cfg, workdir=wd, timeout=1800)
                got = [x["v"] for x in r.by_tag("neg")]
                print(f"DecSyntaxNeg base {base}, {me} edit(s): {len(got)} damaged texts, {sum(1 for g in got if g['accepts'])} still in the "
                      f"language, violated={r.violated}")
                if r.violated:
                    rc = 1
                recs += got
            for comp in ("NeverRefused", "NeverAcceptedWithOtherMeaning"):
                r2 = tlc.run("DecSyntaxNeg", tlc.cfg_text(init="Init", next_="NegNext", constants=dict(Base=base, MaxEdits=1, EmitMode="none"),
                                                          invariants=[comp]), workdir=wd, keep_records=False)
                if comp not in r2.violated:
                    print(f"  MACHINERY: reachability companion {comp} not violated")
                    return 2
        cases = pmap(_neg_case, [(i, r, 31 * i + 7) for i, r in enumerate(recs)])
        tally = {}
        for c in cases:
            tally[c["verdict"]] = tally.get(c["verdict"], 0) + 1
        print(f"syntaxneg: {len(cases)} damaged texts replayed: {tally}")
        if any(v.startswith("MACHINERY") for v in tally):
            rc = 2
        bad = [c for c in cases if c["verdict"] not in ("ok", "not-judged")]
        seen = set()
        for c in bad:
            key = (c["verdict"], c["base"], json.dumps(c["script"][-1:]))
            if key in seen or len(seen) > 12:
                continue
            seen.add(key)
            print("  DISAGREEMENT", json.dumps({k: c[k] for k in ("verdict", "base", "script", "detail", "raised", "text")})[:900])
        if bad and rc == 0:
            rc = 1
    finally:
        tlc.cleanup(wd)
    return rc


if __name__ == "__main__":
    which = sys.argv[1:] or ["lifecycle", "chainqueries", "modeview", "finalstate", "amptree", "decwarnings", "syntaxneg"]
    rc = 0
    for w in which:
        rc |= {"lifecycle": lifecycle, "chainqueries": chainqueries, "modeview": modeview, "finalstate": finalstate, "amptree": amptree, "decwarnings": decwarnings, "syntaxneg": syntaxneg}[w]()
    sys.exit(rc)
