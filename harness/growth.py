"""Growth beyond the listed properties (DESIGN.md section 11): specifications of further behaviour of the library,
model-checked and replayed into the code like the property checks, but *not* registered in MANIFEST.json (no
listed property owns their verdicts).  usage: python -m harness.growth [lifecycle]"""
from __future__ import annotations

import io
import json
import sys
import warnings
from contextlib import redirect_stdout

from . import tlc
from .core import ensure_repo_on_path


def lifecycle():
    ensure_repo_on_path()
    from decaylanguage import DecFileParser
    from decaylanguage.dec.dec import DecFileNotParsed
    wd = tlc.new_workdir("life")
    bad, n = [], 0
    try:
        for usesx in (True, False):
            cfg = tlc.cfg_text(constants=dict(UsesX=usesx, MaxLen=5), invariants=["AnswersOnlyAfterParse", "RegisteredBeforeParseIsKnown"])
            r = tlc.run("DecLifecycle", cfg, workdir=wd)
            print(f"DecLifecycle UsesX={usesx}: {r.distinct} states, violated={r.violated}")
            for rec in r.by_tag("life"):
                b = rec["v"]
                text = "Decay A\n1.0 x y " + ("MYMODEL 1.0" if b["usesx"] else "PHSP") + ";\nEnddecay\n"
                p = DecFileParser.from_string(text) if b["kind"] == "string" else DecFileParser()
                n += 1
                for i, st in enumerate(b["hist"]):
                    out = "ok"
                    with warnings.catch_warnings(record=True) as w:
                        warnings.simplefilter("always")
                        try:
                            if st["op"] == "grammar":
                                (p.grammar if i % 2 else p.grammar_info)()
                            elif st["op"] == "register":
                                p.load_additional_decay_models("MYMODEL")
                            elif st["op"] == "parse":
                                p.parse()
                                if any("re-parsed" in str(x.message) for x in w):
                                    out = "ok-with-reparse-warning"
                            else:
                                p.list_decay_mother_names()
                        except DecFileNotParsed:
                            out = "not-parsed"
                        except Exception:  # noqa: BLE001
                            out = "error-with-reparse-warning" if any("re-parsed" in str(x.message) for x in w) else "error"
                    if out != st["out"]:
                        bad.append({"kind": b["kind"], "usesx": b["usesx"], "history": b["hist"][: i + 1], "observed": out})
                        break
    finally:
        tlc.cleanup(wd)
    print(f"lifecycle: {n} behaviours replayed, {len(bad)} disagreement(s)")
    for b in bad[:5]:
        print("  DISAGREEMENT", json.dumps(b))
    return 1 if bad else 0


if __name__ == "__main__":
    which = sys.argv[1:] or ["lifecycle"]
    rc = 0
    for w in which:
        rc |= {"lifecycle": lifecycle}[w]()
    sys.exit(rc)
