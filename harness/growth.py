"""Growth beyond the listed properties (DESIGN.md section 11): specifications of further behaviour of the library,
model-checked and replayed into the code like the property checks, but *not* registered in MANIFEST.json (no
listed property owns their verdicts).  usage: python -m harness.growth [lifecycle] [chainqueries]"""
from __future__ import annotations

import io
import json
import sys
import warnings
from contextlib import redirect_stdout

from . import tlc
from .core import ensure_repo_on_path


def lifecycle():
    ensure_repo_on_path()
    from decaylanguage import DecFileParser
    from decaylanguage.dec.dec import DecFileNotParsed
    wd = tlc.new_workdir("life")
    bad, n = [], 0
    try:
        for usesx in (True, False):
            cfg = tlc.cfg_text(constants=dict(UsesX=usesx, MaxLen=5), invariants=["AnswersOnlyAfterParse", "RegisteredBeforeParseIsKnown"])
            r = tlc.run("DecLifecycle", cfg, workdir=wd)
            print(f"DecLifecycle UsesX={usesx}: {r.distinct} states, violated={r.violated}")
            for rec in r.by_tag("life"):
                b = rec["v"]
                text = "Decay A\n1.0 x y " + ("MYMODEL 1.0" if b["usesx"] else "PHSP") + ";\nEnddecay\n"
                p = DecFileParser.from_string(text) if b["kind"] == "string" else DecFileParser()
                n += 1
                for i, st in enumerate(b["hist"]):
                    out = "ok"
                    with warnings.catch_warnings(record=True) as w:
                        warnings.simplefilter("always")
                        try:
                            if st["op"] == "grammar":
                                (p.grammar if i % 2 else p.grammar_info)()
                            elif st["op"] == "register":
                                p.load_additional_decay_models("MYMODEL")
                            elif st["op"] == "parse":
                                p.parse()
                                if any("re-parsed" in str(x.message) for x in w):
                                    out = "ok-with-reparse-warning"
                            else:
                                p.list_decay_mother_names()
                        except DecFileNotParsed:
                            out = "not-parsed"
                        except Exception:  # noqa: BLE001
                            out = "error-with-reparse-warning" if any("re-parsed" in str(x.message) for x in w) else "error"
                    if out != st["out"]:
                        bad.append({"kind": b["kind"], "usesx": b["usesx"], "history": b["hist"][: i + 1], "observed": out})
                        break
    finally:
        tlc.cleanup(wd)
    print(f"lifecycle: {n} behaviours replayed, {len(bad)} disagreement(s)")
    for b in bad[:5]:
        print("  DISAGREEMENT", json.dumps(b))
    return 1 if bad else 0


def _chain_case(args):
    """build the real chain of one abstract chain, record the plain queries and the tree print"""
    import random
    from . import chainio
    cid, c, seed = args
    rng = random.Random(seed)
    c = chainio.norm_chain(c)
    cz = chainio.ChainCZ(rng, chainio.chain_names(c))
    dc = chainio.build_chain(cz, c, rng=rng)
    buf = io.StringIO()
    with redirect_stdout(buf):
        dc.print_as_tree()
    lines = []
    for raw in buf.getvalue().splitlines():
        k = raw.rfind("+--> ")
        if k < 0:
            lines.append({"pre": "", "arrow": False, "name": cz.rname(raw)})
        else:
            lines.append({"pre": raw[:k], "arrow": True, "name": cz.rname(raw[k + 5:])})
    obs = {"ndecays": dc.ndecays, "bf": cz.rbf(dc.bf), "top_is_mothers": dc.top_level_decay() is dc.decays[dc.mother],
           "lens": [[cz.rname(n), len(dm)] for n, dm in dc.decays.items()], "lines": lines}
    return {"c": c, "rank": cz.rank, "obs": obs, "printed": buf.getvalue()}


def chainqueries(nd=3, mb=2, extra=400):
    """ChainQueries.tla: lemma + refutation by TLC, every chain of the universe replayed and judged"""
    import random
    ensure_repo_on_path()
    from .core import pmap
    from .c12 import random_chain
    wd = tlc.new_workdir("chq")
    rc = 0
    try:
        cfg = tlc.cfg_text(constants=dict(Mode="gen", NDecay=nd, MaxBag=mb), invariants=["AgreeWhenShallow", "SameNodes"])
        r = tlc.run("ChainQueries", cfg, workdir=wd)
        gen = [x["v"] for x in r.by_tag("case")]
        bad = sum(1 for g in gen if not g["drawn_as_intended"])
        print(f"ChainQueries gen NDecay={nd} MaxBag={mb}: {r.distinct} states, {len(gen)} chains, violated={r.violated}; "
              f"{bad} chains are not drawn as documented (named deviation)")
        if r.violated:
            rc = 1
        r2 = tlc.run("ChainQueries", tlc.cfg_text(constants=dict(Mode="gen", NDecay=nd, MaxBag=mb), invariants=["CodeIsIntended"]),
                     workdir=wd, keep_records=False)
        if "CodeIsIntended" not in r2.violated:
            print("  NOTE: CodeIsIntended is no longer refuted in the model")
        rng = random.Random(1)
        chains = [g["c"] for g in gen] + [random_chain(rng, 5) for _ in range(extra)]
        cases = pmap(_chain_case, [(i, c, 7 * i + 1) for i, c in enumerate(chains)])
        tf = wd / "trace.json"
        tf.write_text(json.dumps([{k: v for k, v in c.items() if k != "printed"} for c in cases]))
        rj = tlc.run("ChainQueries", tlc.cfg_text(constants=dict(Mode="trace", NDecay=1, MaxBag=1)), workdir=wd,
                     env={"TRACE_FILE": str(tf)}, timeout=3000)
        acc = {x["tid"] for x in rj.by_tag("ACCEPT")}
        rej = {x["tid"] for x in rj.by_tag("REJECT")}
        if acc | rej != set(range(1, len(cases) + 1)) or acc & rej:
            print(f"  MACHINERY: verdicts not total ({rj.stdout_path})")
            return 2
        print(f"chainqueries: {len(cases)} chains replayed ({len(gen)} enumerated + {extra} random), {len(rej)} rejected")
        fails = {}
        for x in rj.by_tag("FAIL"):
            fails.setdefault(x["tid"], []).append(x)
        for t in sorted(rej)[:5]:
            print("  DISAGREEMENT", json.dumps({"clauses": [f["clause"] for f in fails.get(t, [])], "chain": cases[t - 1]["c"],
                                                 "printed": cases[t - 1]["printed"]}))
        if rej:
            rc = 1
        # binding self test: one corrupted prefix must be rejected
        good = next((c for i, c in enumerate(cases) if (i + 1) in acc and len(c["obs"]["lines"]) > 2), None)
        if good:
            m = json.loads(json.dumps({k: v for k, v in good.items() if k != "printed"}))
            m["obs"]["lines"][-1]["pre"] += " "
            tf.write_text(json.dumps([m]))
            rs = tlc.run("ChainQueries", tlc.cfg_text(constants=dict(Mode="trace", NDecay=1, MaxBag=1)), workdir=wd,
                         env={"TRACE_FILE": str(tf)})
            if not rs.by_tag("REJECT"):
                print("  MACHINERY: corrupted prefix accepted")
                return 2
            print("  binding self test: corrupted prefix rejected")
    finally:
        tlc.cleanup(wd)
    return rc


if __name__ == "__main__":
    which = sys.argv[1:] or ["lifecycle", "chainqueries"]
    rc = 0
    for w in which:
        rc |= {"lifecycle": lifecycle, "chainqueries": chainqueries}[w]()
    sys.exit(rc)
