"""C02 - layout, comments, line ends and file packaging never change what is parsed."""
from __future__ import annotations

import json
import os
import random
import shutil
import tempfile
import warnings
from pathlib import Path

from . import tlc, decio, decquery
from .core import Outcome, ensure_repo_on_path, finish, pmap, Machinery, REPO

PROP = "C02"
COMMENTS = ["# c", "#", "# End of story ; , Decay X", "#Enddecay", "# yesPhotos", "#\tcomment with # inside and ; ;", "# 1.0 K+ K- PHSP;",
            # characters that str.splitlines() takes for line ends and the grammar does not: still one comment
            "# form\x0cfeed 1.0 K+ K- PHSP;", "# next\x85line Decay X", "# ls\u2028 ps\u2029 End", "# vt\x0b fs\x1c gs\x1d rs\x1e ;"]


def lf_lines(text, keepends=False):
    """the lines of a text as the grammar sees them: cut at \\n only (str.splitlines() also cuts at form feed, NEL, ...)"""
    parts = text.split("\n")
    if keepends:
        out = [p + "\n" for p in parts[:-1]]
        if parts[-1]:
            out.append(parts[-1])
        return out
    if parts and parts[-1] == "":
        parts.pop()
    return [p[:-1] if p.endswith("\r") else p for p in parts]
WS = [" ", "  ", "\t", " \t "]


# ------------------------------------------------------------------ packaging
def parse_packaged(text: str, how: dict, tmp: Path):
    """how: {"mode": "string" | "files", "bom": bool, "cuts": [line indices], "end": [bool per piece], "crlf_all": bool}"""
    from decaylanguage import DecFileParser
    if how.get("crlf_all"):
        text = text.replace("\r\n", "\n").replace("\n", "\r\n")
    if how["mode"] == "string":
        has_end = any(l.lstrip().startswith("End") and not l.lstrip().startswith("Enddecay") for l in lf_lines(text))
        text = text + ("End\n" if how.get("end_string") and not has_end else "")
        if how.get("last_line_is_comment"):
            # the text ends in a comment that runs to the very end of the input (no final line end)
            text = text.rstrip("\r\n") + "  # the end"
        p = DecFileParser.from_string(text)
    else:
        lines = lf_lines(text, keepends=True)
        cuts = [0] + sorted(set(c for c in how.get("cuts", []) if 0 < c < len(lines))) + [len(lines)]
        names = []
        d = Path(tempfile.mkdtemp(dir=tmp))
        for i in range(len(cuts) - 1):
            piece = "".join(lines[cuts[i]:cuts[i + 1]])
            ends = how.get("end", [])
            if i < len(ends) and ends[i]:
                if piece and not piece.endswith("\n"):
                    piece += "\n"
                piece += how.get("end_spelling", "End\n")
            if i in how.get("no_final_newline", []):
                piece = piece.rstrip("\r\n")      # a file that does not end in a line end
            f = d / f"part{i}.dec"
            data = piece.encode("utf-8")
            if how.get("bom") and i in how.get("bom_parts", [0]):
                data = b"\xef\xbb\xbf" + data
            f.write_bytes(data)
            names.append(str(f))
        # file names as str or as Path objects
        p = DecFileParser(*[Path(n) if (len(n) + i) % 2 else n for i, n in enumerate(names)])
    with warnings.catch_warnings():
        warnings.simplefilter("ignore")
        p.parse()
    return p


def snap_or_error(text, how, tmp, deep):
    try:
        p = parse_packaged(text, how, tmp)
        return decio.full_snapshot(p, deep=deep)
    except Exception as e:  # noqa: BLE001
        return {"raised": type(e).__name__, "msg": str(e)[:300]}


def first_diff(a, b, path=""):
    # an absent parameter list is reported as '' or as []: both are "empty" (C01)
    if path.endswith("/model_params") and a in ("", []) and b in ("", []):
        return None
    if type(a) != type(b):
        return f"{path}: {str(a)[:120]!r} vs {str(b)[:120]!r}"
    if isinstance(a, dict):
        for k in sorted(set(a) | set(b)):
            if k not in a or k not in b:
                return f"{path}/{k}: present on one side only"
            d = first_diff(a[k], b[k], f"{path}/{k}")
            if d:
                return d
        return None
    if isinstance(a, list):
        if len(a) != len(b):
            return f"{path}: lengths {len(a)} vs {len(b)}"
        for i, (x, y) in enumerate(zip(a, b)):
            d = first_diff(x, y, f"{path}[{i}]")
            if d:
                return d
        return None
    return None if a == b else f"{path}: {str(a)[:120]!r} vs {str(b)[:120]!r}"


def random_packaging(rng, nlines):
    r = rng.random()
    if r < 0.25:
        return {"mode": "string", "crlf_all": rng.random() < 0.3, "end_string": rng.random() < 0.3,
                "last_line_is_comment": rng.random() < 0.4}
    k = rng.choice([1, 1, 2, 3, 5])
    cuts = sorted(rng.sample(range(1, max(2, nlines)), min(k - 1, max(0, nlines - 1)))) if k > 1 else []
    return {"mode": "files", "bom": rng.random() < 0.5, "bom_parts": rng.sample(range(k), rng.randint(1, k)),
            "cuts": cuts, "end": [rng.random() < 0.5 for _ in range(k)],
            "no_final_newline": [i for i in range(k) if rng.random() < 0.35],
            "end_spelling": rng.choice(["End\n", "End\r\n", "  End  \n", "End # bye\n", "End", "\tEnd\n", " \t End\t\n", "End\t# bye\r\n"]),
            "crlf_all": rng.random() < 0.25}


# ------------------------------------------------------------------ generated texts: items and TLC edit scripts
def render_items(cz, items, rng):
    out = []
    for it in items:
        k, v = it["k"], it["v"]
        if k == "KW":
            out.append(v)
        elif k == "LABEL":
            out.append(cz.name(v))
        elif k == "NUM":
            out.append(cz.lit(v))
        elif k == "MODEL":
            out.append(cz.model(v))
        elif k in ("SEMI", "COMMA", "PHOTOS"):
            out.append(v)
        elif k == "NL":
            out.append("\r\n" if v == "CRLF" else "\n")
        elif k == "WS":
            out.append(rng.choice(WS))
        elif k == "COMMENT":
            out.append(rng.choice(COMMENTS))
    # words need a separator; layout items carry their own text
    text = ""
    prev_word = False
    for it, piece in zip(items, out):
        word = it["k"] in ("KW", "LABEL", "NUM", "MODEL", "PHOTOS", "SEMI", "COMMA", "COMMENT")
        # `;` and `,` may be written directly behind the previous token (`PHSP;`, `;;`, `1.0,`)
        glued = it["k"] in ("SEMI", "COMMA") and rng.random() < 0.5
        if word and prev_word and not glued and not (it["k"] == "COMMENT" and rng.random() < 0.4):
            # (a comment may also start directly behind the last token: `0.04# c`)
            text += " "
        text += piece
        prev_word = word and it["k"] not in ()
        if it["k"] in ("NL", "WS"):
            prev_word = False
    return text


def apply_script(items, script):
    items = list(items)
    ins = {"ws": [{"k": "WS", "v": " "}], "nl": [{"k": "NL", "v": "LF"}], "crlfnl": [{"k": "NL", "v": "CRLF"}],
           "cline": [{"k": "COMMENT", "v": "# c"}, {"k": "NL", "v": "LF"}], "trail": [{"k": "COMMENT", "v": "# c"}],
           "comma": [{"k": "COMMA", "v": ","}], "semi": [{"k": "SEMI", "v": ";"}]}
    for e in script:
        p = e["p"] - 1
        if e["kind"] == "crlf":
            items[p] = {"k": "NL", "v": "CRLF"}
        else:
            items[p:p] = ins[e["kind"]]
    return items


def build_generated(args):
    cid, base_items, script, seed, tmp = args
    rng = random.Random(seed)
    cz = decio.Concretiser(random.Random(seed // 7), readable=True)
    cz2 = decio.Concretiser(random.Random(seed // 7), readable=True)
    text0 = render_items(cz, base_items, random.Random(1))
    edited = apply_script(base_items, script)
    text1 = render_items(cz2, edited, rng)
    nl = text1.count("\n")
    how0 = {"mode": "string"}
    how1 = random_packaging(rng, nl)
    s0 = snap_or_error(text0, how0, Path(tmp), None)
    s1 = snap_or_error(text1, how1, Path(tmp), s0.get("deep_mothers"))
    s0f = snap_or_error(text0, {"mode": "files"}, Path(tmp), s0.get("deep_mothers"))
    bad = []
    if "raised" in s0:
        # the base texts are in the language (DecSyntax.Accepts, bound to the real grammar on both sides of the border by
        # DecSyntaxNeg): the real parser refusing one is an observation about the parser
        return {"cid": cid, "script": script, "how": how0, "text0": text0, "text1": text0,
                "bad": [("C02:text-of-the-language-is-accepted", f"{s0.get('raised')}: {s0.get('msg', '')[:200]}")]}
    d = first_diff(s0, s1)
    if d:
        bad.append(("C02:edited-text-gives-identical-answers", d))
    d = first_diff(s0, s0f)
    if d:
        bad.append(("C02:file-based-equals-string-based-construction", d))
    return {"cid": cid, "script": script, "how": how1, "text0": text0, "text1": text1, "bad": bad}


# ------------------------------------------------------------------ real files: text-level edits
def option_sites(p, text):
    """offsets (into the text the parser read) where option lists can be wrapped / comma'd and of terminating ';'"""
    from lark import Token, Tree
    sites = {"wrap": [], "comma": [], "semi": []}
    seen = set()
    for mt in p._parsed_dec_file.find_data("model"):
        ch = mt.children
        if not ch or not isinstance(ch[0], Token) or ch[0].type != "MODEL_NAME":
            continue
        toks = [ch[0]]
        for c in ch[1:]:
            if isinstance(c, Tree):
                for x in c.children:
                    toks.append(x.children[0] if isinstance(x, Tree) else x)
        if any(getattr(t, "start_pos", None) is None for t in toks):
            continue
        if toks[0].start_pos in seen:
            continue
        seen.add(toks[0].start_pos)
        # only same-text tokens (a token moved in from a ModelAlias definition points elsewhere)
        last = toks[-1]
        end = last.end_pos
        j = end
        while j < len(text) and text[j] in " \t\r\n,":
            j += 1
        if j >= len(text) or text[j] != ";":
            continue
        sites["semi"].append(j + 1)
        for t in toks[1:]:
            word = text[t.start_pos:t.end_pos]
            if not word.startswith("End"):
                sites["wrap"].append(t.start_pos)
            sites["comma"].append(t.start_pos)
        sites["wrap"].append(j)          # the ';' may go to its own line
    return sites


def edit_real(text, sites, rng, intensity):
    """random composition of the listed edits; returns the edited text"""
    # 1. token-level edits inside option lists, applied from the end so that offsets stay valid
    ops = []
    for off in sites["wrap"]:
        if rng.random() < intensity:
            ops.append((off, rng.choice(["\n    ", "\n", "\r\n\t", "\n  # wrapped\n   "])))
    for off in sites["comma"]:
        if rng.random() < intensity:
            ops.append((off, rng.choice([", ", ",", " , "])))
    for off in sites["semi"]:
        if rng.random() < intensity:
            ops.append((off, rng.choice([";", ";;", " ; "])))
    for off, ins in sorted(ops, key=lambda x: -x[0]):
        text = text[:off] + ins + text[off:]
    # 2. line-level edits
    lines = lf_lines(text, keepends=True)
    out = []
    for ln in lines:
        body = ln.rstrip("\r\n")
        eol = ln[len(body):] or "\n"
        r = rng.random()
        if r < intensity:
            out.append(rng.choice(["\n", "   \n", "\r\n", rng.choice(COMMENTS) + "\n", "\t" + rng.choice(COMMENTS) + "\r\n"]))
        if rng.random() < intensity and body.strip():
            body = rng.choice(WS) + body
        if rng.random() < intensity:
            body = body + rng.choice(WS)
        if rng.random() < intensity and not body.lstrip().startswith("End"):
            body = body + rng.choice([" ", " ", "", "\t"]) + rng.choice(COMMENTS)     # possibly glued to the last token
        if rng.random() < intensity and "#" not in body:
            # double an existing blank between tokens
            parts = body.split(" ")
            if len(parts) > 2:
                k = rng.randrange(1, len(parts))
                parts[k] = rng.choice(["", "  ", "\t"]) + parts[k] if parts[k] else parts[k]
                body = " ".join(parts)
        # blanks between tokens that were written without any: around ':' and '=' of Pythia / JetSet statements,
        # in front of the terminating ';'
        if rng.random() < intensity * 2 and "#" not in body and body.lstrip().startswith(("Pythia", "JetSetPar")):
            head, _, rest = body.partition(" ")
            rest = rest.replace("=", rng.choice([" =", "= ", " = "]), 1)
            if head.lstrip().startswith("Pythia"):
                rest = rest.replace(":", rng.choice([" :", ": ", " : "]), 1)
            body = head + " " + rest
        if rng.random() < intensity and "#" not in body and body.rstrip().endswith(";"):
            b = body.rstrip()
            k = len(b) - len(b.rstrip(";"))
            body = b[: len(b) - k] + rng.choice([" ", "\t", "  "]) + ";" * k
        if rng.random() < intensity / 2:
            eol = "\r\n"
        out.append(body + eol)
    return "".join(out)


def build_real(args):
    cid, path, seed, intensity, tmp, extra_models = args
    rng = random.Random(seed)
    p0 = decquery.shipped_parser(path)
    raw = Path(path).read_text(encoding="utf-8")
    s0 = _S0.get(path)
    if s0 is None:
        s0 = decio.full_snapshot(p0)
        _S0[path] = s0
    sites = option_sites(p0, p0._dec_file) if not any(l.lstrip().startswith("End") and not l.lstrip().startswith("Enddecay")
                                                     for l in lf_lines(raw)[:-3]) else {"wrap": [], "comma": [], "semi": []}
    text = raw
    # drop a final End so that packaging decides about it
    lines = lf_lines(text, keepends=True)
    while lines and (not lines[-1].strip() or (lines[-1].lstrip().startswith("End") and not lines[-1].lstrip().startswith("Enddecay"))):
        lines.pop()
    text = "".join(lines)
    if not text.endswith("\n"):
        text += "\n"
    base_len = len(text)
    sites = {k: [o for o in v if o < base_len] for k, v in sites.items()}
    text1 = edit_real(text, sites, rng, intensity)
    how = random_packaging(rng, text1.count("\n"))
    if extra_models:
        how["mode"] = "files" if how["mode"] == "files" else "string"
    try:
        s1 = snap_models(text1, how, Path(tmp), s0["deep_mothers"], extra_models)
    except Exception as e:  # noqa: BLE001
        s1 = {"raised": type(e).__name__, "msg": str(e)[:300]}
    d = first_diff(s0, s1)
    bad = [("C02:edited-text-gives-identical-answers", d)] if d else []
    return {"cid": cid, "file": Path(path).name, "seed": seed, "how": how, "intensity": intensity, "bad": bad,
            "nsites": {k: len(v) for k, v in sites.items()}, "text1": text1 if d and len(text1) < 20000 else None,
            "text1_head": text1[:1500] if d else None}


_S0: dict = {}


def snap_models(text, how, tmp, deep, extra_models):
    if not extra_models:
        s = snap_or_error(text, how, tmp, deep)
        return s
    # fixtures that need registered models: same packaging, models registered before parse()
    from decaylanguage import DecFileParser
    orig_parse = DecFileParser.parse

    def parse(self, *a, **k):
        if self._additional_decay_models is None:
            self.load_additional_decay_models(*extra_models)
        return orig_parse(self, *a, **k)
    DecFileParser.parse = parse
    try:
        return snap_or_error(text, how, tmp, deep)
    finally:
        DecFileParser.parse = orig_parse


def run(tier, seed, replay_path=None):
    ensure_repo_on_path()
    o = Outcome(PROP, tier, seed)
    rng = random.Random(seed)
    deep = tier == "thorough"
    wd = tlc.new_workdir("c02")
    tmp = Path(tempfile.mkdtemp(prefix="c02files-", dir=wd))
    try:
        # 1. the edit table is sound and tight on the item-level grammar model
        scripts = []
        bases = {}
        for base in (1, 2):
            cfg = tlc.cfg_text(constants=dict(Base=base, MaxEdits=2, EmitMode="scripts"), invariants=["Sound", "Tight", "EmitTable"])
            r = tlc.run("DecSyntax", tlc.cfg_text(constants=dict(Base=base, MaxEdits=0, EmitMode="table"), invariants=["EmitTable"]),
                        workdir=wd)
            bases[base] = r.by_tag("table")[0]["v"]["items"]
            r = tlc.run("DecSyntax", cfg, workdir=wd)
            o.add_tlc(r, f"DecSyntax base {base}: Sound + Tight over every sequence of <= 2 allowed edits; scripts emitted")
            if r.violated:
                o.violate("spec-invariant", {"base": base, "violated": r.violated}, r.stdout_path)
            scripts += [x["v"] for x in r.by_tag("script")]
            if deep:
                r3 = tlc.run("DecSyntax", tlc.cfg_text(constants=dict(Base=base, MaxEdits=3, EmitMode="none"),
                                                       invariants=["Sound", "Tight"]), workdir=wd, keep_records=False, timeout=3000)
                o.add_tlc(r3, f"DecSyntax base {base}: Sound + Tight over every sequence of <= 3 allowed edits")
                if r3.violated:
                    o.violate("spec-invariant", {"base": base, "violated": r3.violated}, r3.stdout_path)
        rr = tlc.run("DecSyntax", tlc.cfg_text(constants=dict(Base=1, MaxEdits=1, EmitMode="none"), invariants=["NeverWrapped"]),
                     workdir=wd, keep_records=False)
        o.add_tlc(rr, "reachability companion NeverWrapped", expect_violation=True)
        if "NeverWrapped" not in rr.violated:
            raise Machinery("NeverWrapped not violated")
        # longer scripts by simulation
        for base in (1, 2):
            rs = tlc.run("DecSyntax", tlc.cfg_text(constants=dict(Base=base, MaxEdits=6, EmitMode="scripts")), workdir=wd,
                         simulate=f"num={400 if deep else 40}", depth=8, seed=seed, workers=1)
            o.add_tlc(rs, f"DecSyntax base {base}: random scripts of 6 edits")
            sim = [x["v"] for x in rs.by_tag("script")]
            scripts += random.Random(seed).sample(sim, min(len(sim), 2000 if deep else 150))
        o.notes["scripts_emitted"] = len(scripts)
        nwin = 20000 if deep else 900
        if len(scripts) > nwin:
            k = len(scripts)
            off, step = seed % k, k // nwin
            scripts = [scripts[(off + i * step) % k] for i in range(nwin)]
            o.notes["script_window"] = f"{nwin} of {k}"
        args = [(i, bases[s["base"]], s["script"], seed * 19 + i, str(tmp)) for i, s in enumerate(scripts)]
        gen = pmap(build_generated, args)
        for g in gen:
            o.traces += 1
            o.evaluations += 1
            o.nontrivial.add(json.dumps(g["script"]))
            for clause, d in g["bad"][:1]:
                o.violate(clause, {"script": g["script"], "how": g["how"]}, {"diff": d, "text0": g["text0"], "text1": g["text1"]})
        # 2. the shipped files
        masters, tests = decquery.shipped_files()
        rargs = []
        for path in masters:
            for j in range(24 if deep else 5):
                rargs.append((len(rargs), path, seed * 23 + len(rargs), rng.choice([0.002, 0.01, 0.05, 0.2]), str(tmp), None))
        for path in tests:
            em = decquery.EXTRA_MODELS.get(Path(path).name)
            for j in range(40 if deep else 6):
                rargs.append((len(rargs), path, seed * 23 + len(rargs), rng.choice([0.05, 0.2, 0.5]), str(tmp), em))
        # ... and a file of the harness' own whose parameter names begin like keywords in another letter case
        own = str(Path(__file__).resolve().parent / "data" / "keywordlike.dec")
        for j in range(60 if deep else 10):
            rargs.append((len(rargs), own, seed * 23 + len(rargs), 0.5, str(tmp), None))
        real = pmap(build_real, rargs, chunk=1, limit=600)
        for g in real:
            o.traces += 1
            o.evaluations += 1
            o.nontrivial.add(json.dumps([g["file"], g["seed"]]))
            for clause, d in g["bad"][:1]:
                o.violate(clause, {"file": g["file"], "how": g["how"], "seed": g["seed"], "intensity": g["intensity"]},
                          {"diff": d, "text1_head": g["text1_head"]})
        o.notes["real_file_variants"] = len(real)
        o.notes["option_sites_master"] = next((g["nsites"] for g in real if g["file"].startswith("DECAY_LHCB")), None)
        o.notes["packagings"] = {m: sum(1 for g in real + gen if g["how"]["mode"] == m) for m in ("string", "files")}
        o.notes["with_bom"] = sum(1 for g in real + gen if g["how"].get("bom") and g["how"]["mode"] == "files")
        for g in gen[:2]:
            o.sample({"script": g["script"], "packaging": g["how"], "edited_text": g["text1"]})
        o.rule = ("edit scripts: every sequence of <= 2 allowed edits on two base texts (TLC-emitted; quick: a window), random "
                  "scripts of 6 edits, each applied at item level to the rendered text and packaged at random (string, file, BOM, "
                  "split into several files with/without End, CRLF); random compositions of the same edits on both master files "
                  "and every tests/data file; oracle = identical snapshot of every public query; distinct = distinct scripts / "
                  "(file, seed) pairs")
        o.assumptions = ["a wrapped continuation line does not start with the characters End (it would be dropped by the constructor)",
                         "option-list positions in real files come from the token offsets Lark recorded in the original parse"]
    finally:
        tlc.cleanup(wd)
    return finish(o)
