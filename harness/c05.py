"""C05 - Define'd parameters and ModelAlias'd models mean exactly their expansion."""
from __future__ import annotations

import random

from . import tlc, decfam, decrand
from .core import Outcome, ensure_repo_on_path, finish
from .c03 import window

PROP = "C05"


def corrupt(c):
    for t in c["obs"]["tables"]:
        for ln in t["lines"]:
            if ln["ps"]:
                ln["ps"][0] = {"t": "word", "v": "zz"}
                return True
    return False


def uses_defs(src):
    d = {s["m"] for s in src if s["k"] in ("Define", "ModelAlias")}
    for s in src:
        for ln in s.get("lines", []):
            if ln["mk"] == "alias" or any(p["t"] == "word" and p["v"].lstrip("-") in d for p in ln["ps"]):
                return True
    return False


def run(tier, seed, replay_path=None):
    ensure_repo_on_path()
    o = Outcome(PROP, tier, seed)
    rng = random.Random(seed)
    deep = tier == "thorough"
    wd = tlc.new_workdir("c05")
    try:
        if replay_path:
            import json
            c = json.load(open(replay_path))["case"]
            decfam.run_cases(PROP, [(c["src"], c["base"], True)], o, wd, "replay", seed)
            return finish(o)
        files = decfam.tlc_files("C05", 4 if deep else 3, 1, wd, o)
        if deep:
            files += decfam.tlc_files("C05", 3, 2, wd, o)
        sim = decfam.tlc_files("C05", 9, 2, wd, o, check=False, simulate=4000 if deep else 400, seed=seed)
        decfam.reachability("C05", "NeverFails", wd, o)
        o.notes["universe_files"] = len(files)
        files = [f for f in files if not f["fails"] and uses_defs(f["src"])]
        o.notes["universe_files_using_definitions"] = len(files)
        files = window(files, 60000 if deep else 1200, seed, o, "exhaustive")
        specs = [(f["src"], f["base"], True) for f in files + sim if not f["fails"]]
        cases, rej = decfam.run_cases(PROP, specs, o, wd, "judge replayed TLC-generated files (DecTrace)", seed)
        n = 5000 if deep else 400
        specs = [decrand.gen_c05(rng, big=(i % 2 == 0)) for i in range(n)]
        cases2, rej2 = decfam.run_cases(PROP, specs, o, wd, "judge recorded traces of random files (DecTrace)", seed + 1)
        for c in cases2[:2] + cases[:1]:
            o.sample({"text": c["text"], "expanded_text": c["xtext"]})
        decfam.selftest_binding(PROP, [c for i, c in enumerate(cases) if i not in rej], wd, o, corrupt)
        o.rule = ("abstract files with Define/ModelAlias placed before, between and after the Decay blocks using them "
                  "(TLC universe DecGen/C05, simulated, seeded random); the file and its textual expansion are both parsed "
                  "by the real code and judged by DecTrace.tla; distinct = distinct abstract files")
        o.assumptions = ["alias-of-alias and undefined aliases are outside the statement (the latter judged under C06)"]
    finally:
        tlc.cleanup(wd)
    return finish(o)
