"""Four-body AmpGen lines over the supported spin structures, and readers of the generated GooFit code
(C++ and Python) - shared by C18, C19, C20."""
from __future__ import annotations

import itertools
import random
import re

from . import ampio

# reference data for the pool (spin letter as used in the spin-structure names, J, what it decays to)
FIN = {"K-": ("s", 0), "K+": ("s", 0), "pi+": ("s", 0), "pi-": ("s", 0), "pi0": ("s", 0), "D0": ("s", 0)}
POOL = {
    "K*(892)bar0": ("V", 1, ("K-", "pi+")),
    "K*(892)0": ("V", 1, ("K+", "pi-")),
    "rho(770)0": ("V", 1, ("pi+", "pi-")),
    "rho(1450)0": ("V", 1, ("pi+", "pi-")),
    "omega(782)0": ("V", 1, ("pi+", "pi-")),
    "phi(1020)0": ("V", 1, ("K+", "K-")),
    "rho(770)+": ("V", 1, ("pi+", "pi0")),
    "rho(770)-": ("V", 1, ("pi-", "pi0")),
    "f(0)(980)0": ("S", 0, ("pi0", "pi0")),       # a vertex with two identical final-state particles
    "f(2)(1270)0": ("T", 2, ("pi0", "pi0")),
    "KPi00": ("S", 0, ("K-", "pi+")),
    "KPi10": ("S", 0, ("K-", "pi+")),
    "PiPi00": ("S", 0, ("pi+", "pi-")),
    "PiPi20": ("S", 0, ("pi+", "pi-")),
    "K(1)(1270)bar-": ("A", 1, None),
    "K(1)(1400)bar-": ("A", 1, None),
    "a(1)(1260)+": ("A", 1, None),
    "K(2)*(1430)bar-": ("T", 2, None),
    "K(1460)bar-": ("s", 0, None),
}
LS_KINDS = {"RBW": [None], "GSpline": ["GSpline.EFF"], "kMatrix": ["kMatrix.pole.1", "kMatrix.prod.0", "kMatrix.pole.0"],
            "FOCUS": ["FOCUS.Kpi", "FOCUS.I32", "FOCUS.KEta"]}
EVENTS = [("D0", "K-", "pi+", "pi+", "pi-"), ("D0", "K+", "K-", "pi+", "pi-"), ("D0", "pi+", "pi-", "pi+", "pi-"),
          ("D0", "pi+", "pi+", "K-", "pi-"), ("D0", "pi+", "pi-", "pi0", "pi0"), ("D0", "pi0", "pi0", "pi0", "pi0")]
CASCADE_CHARGE = {"K(1)(1270)bar-": -1, "K(1)(1400)bar-": -1, "K(2)*(1430)bar-": -1, "K(1460)bar-": -1, "a(1)(1260)+": 1}
CHARGE = {"K-": -1, "K+": 1, "pi+": 1, "pi-": -1, "pi0": 0}


def node(name, sf="-", ls=None, kids=()):
    if name in FIN:
        letter, J = FIN[name]
    else:
        letter, J, _ = POOL[name]
    kind = "RBW"
    for k, tags in LS_KINDS.items():
        if ls in tags and ls is not None:
            kind = k
    return {"name": name, "sf": sf, "ls": ls or "-", "kids": list(kids), "letter": letter, "J": J, "lskind": kind}


def two_body(rng, dec):
    cands = [n for n, (_, _, d) in POOL.items() if d == dec]
    return rng.choice(cands) if cands else None


def random_tag(rng, two_body_scalar=False):
    k = rng.choice(["RBW", "RBW", "GSpline", "kMatrix", "FOCUS"])
    return rng.choice(LS_KINDS[k])


def gen_line(rng, event, allow_unsupported=True):
    """one complete four-body line for `event` = (mother, f1..f4): two-resonance or cascade topology"""
    fin = list(event[1:])
    for _ in range(200):
        perm = fin[:]
        rng.shuffle(perm)
        if rng.random() < 0.5:
            r1 = two_body(rng, (perm[0], perm[1]))
            r2 = two_body(rng, (perm[2], perm[3]))
            if not r1 or not r2:
                continue
            if not allow_unsupported and (POOL[r1][0], POOL[r2][0]) == ("S", "V"):
                r1, r2, perm = r2, r1, perm[2:] + perm[:2]
            if not allow_unsupported and (POOL[r1][0], POOL[r2][0]) not in {("V", "V"), ("V", "S"), ("S", "S")}:
                continue
            sf = rng.choice(["-", "-", "S", "P", "D"]) if (POOL[r1][0], POOL[r2][0]) == ("V", "V") else "-"
            t = node(event[0], sf=sf, kids=[node(r1, ls=random_tag(rng), kids=[node(perm[0]), node(perm[1])]),
                                            node(r2, ls=random_tag(rng), kids=[node(perm[2]), node(perm[3])])])
            return t
        r = two_body(rng, (perm[0], perm[1]))
        if not r:
            continue
        q = CHARGE[perm[0]] + CHARGE[perm[1]] + CHARGE[perm[2]]
        cands = [n for n, c in CASCADE_CHARGE.items() if c == q]
        if not cands:
            continue
        big = rng.choice(cands)
        if not allow_unsupported and (POOL[big][0], POOL[r][0]) not in {("A", "V"), ("A", "S"), ("T", "V"), ("s", "S"), ("s", "V")}:
            continue
        wave = rng.choice(["-", "-", "D"]) if (POOL[big][0], POOL[r][0]) == ("A", "V") else "-"
        inner = node(big, sf=wave, ls=random_tag(rng), kids=[node(r, ls=random_tag(rng), kids=[node(perm[0]), node(perm[1])]),
                                                             node(perm[2])])
        kids = [inner, node(perm[3])]
        if allow_unsupported and rng.random() < 0.08:
            kids.reverse()            # bachelor written first: refused by design
        return node(event[0], kids=kids)
    raise RuntimeError("could not build a line")


def render_tree(t):
    s = t["name"]
    if t["kids"]:
        tags = [x for x in (t["sf"], t["ls"]) if x != "-"]
        if tags:
            s += "[" + ";".join(tags) + "]"
        s += "{" + ",".join(render_tree(k) for k in t["kids"]) + "}"
    return s


def resonances(t, acc=None):
    acc = [] if acc is None else acc
    for k in t["kids"]:
        if k["kids"]:
            acc.append(k)
            resonances(k, acc)
    return acc


def support_lines(lines, rng, pars_fixed=None, omit=()):
    """constants / parameters the lineshapes of these lines need (spline tables, K-matrix parameter families)"""
    out = []
    kinds = {}
    for t in lines:
        for r in resonances(t):
            kinds.setdefault(r["lskind"], set()).add(r["name"])
    for name in sorted(kinds.get("GSpline", ())):
        n = rng.randint(2, 5)
        lo, hi = rng.choice([("0.18412", "1.9"), ("0.25", "2.5"), ("0.6", "3.0"), ("0.18412", "3.0")])
        out += [f"{name}::Spline::Min {lo}", f"{name}::Spline::Max {hi}", f"{name}::Spline::N {n}"]
        for i in range(n):
            out.append(f"{name}::Spline::Gamma::{i}   {rng.choice([0, 2])}   {0.001 * (i + 1) + rng.random() * 1e-6:.10f}   "
                       f"{0.000100001234 if i % 2 else 0}")
    if "kMatrix" in kinds:
        order = list(range(5))
        rng.shuffle(order)                 # parameter lines are order-free: f_scatt3 may stand before f_scatt0
        for i in order:
            out.append(f"f_scatt{i}   {rng.choice([0, 2])}   {0.1 * (i + 1) + rng.random() * 1e-7:.9f}   0.0100000123")
        for p in range(5):
            for nm in ("pipi", "KK", "4pi", "EtaEta", "EtapEta", "mass"):
                out.append(f"IS_p{p + 1}_{nm}   2   {0.1 * p + 0.01 * len(nm):.4f}   0")
        for nm, v in (("s0_prod", -0.07), ("s0_scatt", -3.92637), ("sA", 1.0), ("sA0", -0.15)):
            if nm not in omit:
                out.append(f"{nm}   2   {v}   0")
    return out


# ------------------------------------------------------------------ readers of generated code
SF_CPP = re.compile(r'new SpinFactor\("SF", SF_4Body::(\w+)\s*, (\d+), (\d+), (\d+), (\d+)\)')
SF_PY = re.compile(r'SpinFactor\("SF", SF_4Body\.(\w+)\s*, (\d+), (\d+), (\d+), (\d+)\)')
LS_CPP = re.compile(r'new Lineshapes::(\w+)\("([^"]+)"(.*?), (\d+), (M_\d+(?:_\d+)?), FF::BL2', re.S)
LS_PY = re.compile(r'Lineshapes\.(\w+)\("([^"]+)"(.*?), (\d+), (M_\d+(?:_\d+)?), FF\.BL2', re.S)
N_CPP = re.compile(r'spin_factor_list\.back\(\),\s*(\d+)\}\);')
N_PY = re.compile(r'spin_factor_list\[-1\],\s*(\d+)\)\)')


def read_amplitude(text, lang):
    sf_re, ls_re, n_re = (SF_CPP, LS_CPP, N_CPP) if lang == "cpp" else (SF_PY, LS_PY, N_PY)
    sfs = [{"name": m.group(1), "idx": [int(m.group(i)) + 1 for i in range(2, 6)]} for m in sf_re.finditer(text)]
    lss = [{"kind": m.group(1), "res": m.group(2), "L": int(m.group(4)), "mass": m.group(5)} for m in ls_re.finditer(text)]
    n = n_re.search(text)
    return sfs, lss, int(n.group(1)) if n else -1


def read_options(cls, text, form):
    """hand an options text to a reader class as `text=` (form 0), as a file named by a str (1) or by a pathlib.Path given
    by position (2)"""
    if form == 0:
        return cls.read_ampgen(text=text)
    import tempfile
    from pathlib import Path
    from .tlc import WORK
    WORK.mkdir(exist_ok=True)
    with tempfile.TemporaryDirectory(prefix="optf-", dir=str(WORK)) as d:
        fp = Path(d) / "options.txt"
        fp.write_text(text, encoding="utf_8")
        return cls.read_ampgen(filename=str(fp)) if form == 1 else cls.read_ampgen(fp)


def with_remarks(lines, rng):
    """trailing remarks on some lines, whole-line comments and blank lines between them (the grammar ignores all of these)"""
    out = []
    for ln in lines:
        if rng.random() < 0.2:
            out.append(rng.choice(["", "# a comment", "   ", "#D0{K-,pi+} 0 1 0 0 1 0"]))
        out.append(ln + rng.choice(["", "", "  ", "  # fixed", "\t# see note 3"]))
    return out
