"""C10 - expanding decay modes enumerates every complete decay path exactly once."""
from __future__ import annotations

import random

from . import tlc, decfam, decquery
from .core import Outcome, ensure_repo_on_path, finish, pmap
from .c03 import window
from .c09 import flatten, record

PROP = "C10"


def corrupt(c):
    if len(c["res"]["trees"]) >= 1:
        c["res"]["trees"] = c["res"]["trees"][1:] + [{"m": "zz", "leaf": False, "kids": []}]
        return True
    return False


def shipped_specs(rng, deep, o):
    masters, tests = decquery.shipped_files()
    specs = []
    pmax = 3000 if deep else 300
    for path in masters + tests:
        p = decquery.shipped_parser(path)
        mothers = p.list_decay_mother_names()
        tabs = decquery.obs_tables(p, mothers)
        elig = []
        for m in mothers:
            n, np_ = decquery.unfold_size(tabs, m, cap=10**6)
            if n is not None and np_ is not None and np_ <= pmax:
                elig.append(m)
        o.notes.setdefault("shipped_mothers_eligible", {})[path.split("/")[-1]] = f"{len(elig)} of {len(mothers)} (paths <= {pmax})"
        if not deep and path in masters:
            rng.shuffle(elig)
            elig = elig[:40]
        for m in elig:
            specs.append((PROP, len(specs), path, m, []))
    return specs


def run(tier, seed, replay_path=None):
    ensure_repo_on_path()
    o = Outcome(PROP, tier, seed)
    rng = random.Random(seed)
    deep = tier == "thorough"
    wd = tlc.new_workdir("c10")
    try:
        # one TLC run: every file of the fixed-layout universe, lemmas on the unfolding operators checked on the way
        cfg = tlc.cfg_text(constants=dict(Profile="C10", MaxStmts=0, MaxLines=2, DoEmit=True, Build=False),
                           invariants=["MachineIsParsed", "C09_Lemmas", "C10_Count"])
        r = tlc.run("DecGen", cfg, workdir=wd)
        o.add_tlc(r, "DecGen C10 universe (alias subsets x blocks for A, B, C): C09_Lemmas, C10_Count; files emitted")
        if r.violated:
            o.violate("spec-invariant", {"violated": r.violated}, r.stdout_path)
        files = [x["v"] for x in r.by_tag("case")]
        if deep:
            files += decfam.tlc_files("C09", 3, 2, wd, o, check=False, what="DecGen C09 universe (sequences of <= 3 statements)")
        decfam.reachability("C09", "NeverNested", wd, o)
        sim = decfam.tlc_files("C09", 6, 2, wd, o, check=False, simulate=1000 if deep else 100, seed=seed)
        files = [f for f in files if any(s["k"] == "Decay" and s["lines"] for s in f["src"])]
        o.notes["universe_files"] = len(files)
        files = window(files, 20000 if deep else 600, seed, o, "exhaustive") + sim
        args = [(PROP, i, f["src"], seed * 7919 + i, ["A", "B", "C"]) for i, f in enumerate(files)]
        ladders = [(PROP, f"ladder{j}", rng.randint(5, 30), seed * 401 + j) for j in range(300 if deep else 30)]
        cases = flatten(pmap(decquery.build_generated, args)) + flatten(pmap(decquery.build_ladder, ladders))
        rej = decfam.judge(cases, wd, o, "judge expansions of TLC-generated table sets (DecTrace/DecQuery)")
        record(o, cases, rej)
        specs = shipped_specs(rng, deep, o)
        cases2 = pmap(decquery.build_shipped, specs, chunk=8)
        rej2 = decfam.judge(cases2, wd, o, "judge expansions of the shipped .dec files (DecTrace/DecQuery)")
        record(o, cases2, rej2)
        o.notes["generated_cases"] = len(cases)
        o.notes["shipped_cases"] = len(cases2)
        o.notes["max_paths_in_a_case"] = max([len(c["res"]["trees"]) for c in cases + cases2] or [0])
        for c in cases2[:1] + cases[:2]:
            o.sample({"file": c.get("file") or c.get("text"), "m": c["m"], "descriptors": c["descriptors"][:4]})
        decfam.selftest_binding(PROP, [c for i, c in enumerate(cases) if i not in rej and c["res"]["trees"]], wd, o, corrupt)
        o.rule = ("(table set, mother) pairs: acyclic table sets of the TLC universe DecGen/C09 (aliases, empty blocks, repeated "
                  "decaying daughters) and of the shipped .dec files (mothers below the path bound); every returned descriptor "
                  "is read back into a tree; distinct = distinct pairs")
        o.assumptions = ["table sets are acyclic (checked by TLC on every case)",
                         "descriptors are read back with the default patterns by harness/descriptor.py"]
    finally:
        tlc.cleanup(wd)
    return finish(o)
