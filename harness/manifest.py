"""Regenerates MANIFEST.json from the table below (python -m harness.manifest)."""
from __future__ import annotations

import json
from pathlib import Path

ROOT = Path(__file__).resolve().parent.parent

# id -> (technique, level text, level note, design ref)
CHECKS: dict[str, tuple[str, str, str, str]] = {}
NOT_APPLICABLE: dict[str, str] = {}


def check(pid, technique, text, note, ref):
    CHECKS[pid] = (technique, text, note, ref)


check("C14",
      "TLA+ stack machine (spec/Descriptor.tla) model-checked with TLC; TLC-generated behaviours replayed into real with-blocks",
      "TLC checks RestoresEntry / InvalidInert exhaustively on the abstract state graph (2 context objects, 3 valid + 2 invalid "
      "patterns, nesting <= 3) and refutes the two designs the property forbids; every transition of that graph (through a "
      "shortest path), every operation sequence up to a length bound and random walks of length 14 are replayed with real "
      "`with` statements, comparing DescriptorFormat.config and a rendered, read-back descriptor after every step.",
      "Trusts TLC, the descriptor reader of harness/descriptor.py and Python's with-statement semantics; pattern ids are "
      "concretised from finite pools of spellings.",
      "DESIGN.md section 5, C14")

ALL = [f"C{i:02d}" for i in range(1, 21)]


def build() -> dict:
    checks = []
    for pid in ALL:
        if pid not in CHECKS:
            continue
        technique, text, note, ref = CHECKS[pid]
        checks.append({
            "property_id": pid,
            "quick_cmd": f"bin/check {pid} --tier quick",
            "thorough_cmd": f"bin/check {pid} --tier thorough",
            "evidence_file": f"/verif/evidence/{pid}.json",
            "replay_cmd_template": f"bin/check {pid} --replay {{path}}",
            "engine": "tlc-conformance",
            "level_claimed": {"category": "model_checking", "text": text, "design_ref": ref},
            "level_note": note,
            "technique": technique,
        })
    na = [{"property_id": p, "reason": NOT_APPLICABLE.get(p, "check not built yet in this round (planned: DESIGN.md section 5); nothing is claimed")}
          for p in ALL if p not in CHECKS]
    return {
        "version": 1,
        "setup_cmd": "bin/setup",
        "hooks": {
            "guard": "DECAYLANGUAGE_VERIF",
            "enable": "environment variable DECAYLANGUAGE_VERIF=1 (set by bin/check); /repo/src is put first on sys.path, nothing is built",
            "baseline_off_cmd": "cd /repo && env -u DECAYLANGUAGE_VERIF /venv/bin/python -m pytest -ra -q -p no:cacheprovider --timeout=900 --continue-on-collection-errors",
            "source_commits": json.loads((ROOT / "hooks.json").read_text())["source_commits"] if (ROOT / "hooks.json").exists() else [],
            "add_only": True,
        },
        "engines": [{
            "name": "tlc-conformance",
            "path": "/verif/harness",
            "serves_properties": sorted(CHECKS),
            "kind_free_text": "TLA+ specifications in /verif/spec checked with TLC 1.8; behaviours emitted by TLC are replayed "
                              "into the real code (S->C) and traces recorded from the real code are validated by TLC (C->S)",
        }],
        "checks": checks,
        "not_applicable": na,
        "notes": "Exit codes: 0 held, 1 violation (VIOLATION line + replay file), 2 machinery failure. "
                 "VERIF_SEED seeds every random choice. Known findings: /verif/known_findings.json.",
    }


if __name__ == "__main__":
    (ROOT / "MANIFEST.json").write_text(json.dumps(build(), indent=1) + "\n")
    import subprocess
    subprocess.run(["python3-vt", "-c",
                    "import json,jsonschema;jsonschema.validate(json.load(open('/verif/MANIFEST.json')),"
                    "json.load(open('/root/.vp/MANIFEST.schema.json')));print('MANIFEST.json valid')"], check=True)
    print("MANIFEST.json written:", len(CHECKS), "checks")
