"""Regenerates MANIFEST.json from the table below (python -m harness.manifest)."""
from __future__ import annotations

import json
from pathlib import Path

ROOT = Path(__file__).resolve().parent.parent

# id -> (technique, level text, level note, design ref)
CHECKS: dict[str, tuple[str, str, str, str]] = {}
NOT_APPLICABLE: dict[str, str] = {}


# inputs past the enumerated bound (DESIGN.md section 4, "Past the enumerated bound on every axis")
PAST_BOUND = {
    "C01": "files with 8..20 mothers, most of them given two or three blocks",
    "C04": "the CDecay statement repeated in one table case in four",
    "C06": "registered names of 23..64 characters, a one-character one, 40 names registered at once",
    "C08": "a ladder file of 13 nested tables; every mother's reference answers from an instance of its own",
    "C09": "ladder files of 5..30 nested tables; the stable set as list / tuple / set, by keyword or position",
    "C10": "ladder files of 5..30 nested tables",
    "C11": "lines of 12..25 nested decays, modes with 10..14 distinct daughters",
    "C12": "lines of 12..25 nested decays, modes with 10..14 distinct daughters; the stable set as list / tuple / set / frozenset / "
           "dict keys, by keyword or position",
    "C13": "lines of 12..25 nested decays, modes with 10..14 distinct daughters",
    "C15": "lines of 12..25 nested decays, modes with 10..14 distinct daughters; dictionaries whose equal sub-tables are one object",
    "C16": "tables of 9..30 lines with up to 15 distinct values; every sixth table printed through its CDecay conjugate",
    "C17": "numbers past 2 pi, 180 and 360, 1e4 and 1e-7 among the spellings; options read as text=, by file name (str) and by Path; "
           "a daughter under a twin spelling of a resonance of the file",
    "C18": "files with up to 8 sub-decay lines and up to 9 mother lines, randomly interleaved, with trailing remarks, read as text=, "
           "by file name and by Path",
}


# names that are spellings of each other (DESIGN.md section 7, round k)
RELATED = {"C01", "C03", "C05", "C08", "C09", "C10", "C11", "C12", "C13", "C15", "C16"}


def check(pid, technique, text, note, ref):
    if pid in RELATED:
        text += (" In part of the inputs the names are spellings of each other (extension, truncation, other letter case, one "
                 "matching the other as a shell pattern).")
    if pid in PAST_BOUND:
        text += " Past the enumerated bound: " + PAST_BOUND[pid] + "."
    CHECKS[pid] = (technique, text, note, ref)


CH_NOTE = ("Trusts TLC, harness/chainio.py (abstract names are concretised so that Python's sort order realises the abstract "
           "rank; bfs are pairwise distinct prime-reciprocal Fractions; metadata tokens map to distinguishable JSON-like "
           "dictionaries) and harness/descriptor.py (backtracking reader, all parses enumerated).")
check("C11",
      "TLA+ model of the class / dictionary forms (spec/Chain.tla: ToDict, FromDict) with TLC-checked round trip on every chain "
      "of the bounded universe; real conversions recorded and validated by TLC (spec/ChainTrace.tla)",
      "TLC checks FromDict(ToDict(c)) = c on every chain of the Flatten universe. Real DecayChain objects built from those chains "
      "and from random ones (repeated decaying particles, multiplicity 4, JSON-like metadata) are converted to_dict -> from_dict "
      "-> to_dict and TLC judges the dictionary against ToDict (per-position unfolding, canonical order) and the rebuilt chain "
      "against the original; random dictionaries with several modes / conflicting repeats must be rejected exactly when FromDict "
      "rejects; final states built from string, list, tuple, mapping and PDG ids in shuffled orders must be the same bag in one "
      "canonical order; every EvtGen id; parser-produced single-line chains round trip up to daughter order; chains with an empty "
      "final state and a zero branching fraction (the documented defaults) are included.",
      CH_NOTE, "DESIGN.md section 5, C11")
check("C12",
      "PlusCal algorithm with the loop structure of DecayChain.flatten (spec/Flatten.tla) model-checked with TLC over every "
      "chain x stable set x key order of the bounded universe, with termination; real flatten() results validated by TLC",
      "TLC checks termination, fs = Leaves(c,S), used = DecaysUsed(c,S) and a conservation invariant at every step for every "
      "chain (<= 3-4 decaying particles, bags <= 2-3), every stable set and every order of the sub-decay mapping. Each run of that "
      "universe and random chains with up to 15 decaying particles are replayed on real chains whose bfs are distinct "
      "prime-reciprocal Fractions, so the bag of decays used is recovered exactly by factorising the returned bf; TLC judges "
      "leaves, used bag, no sub-decays left, metadata kept, original unchanged, order independence, float agreement, visible_bf.",
      CH_NOTE, "DESIGN.md section 5, C12")
check("C13",
      "TLA+ tree of a chain (spec/Chain.tla TreeOf / CanonTree); real to_string() under 6 pattern pairs read back by bracket "
      "matching and validated as unordered trees by TLC (spec/ChainTrace.tla)",
      "Every chain of the Flatten universe and random chains with repeated decaying daughters are built with names from real "
      "spellings (parentheses, quotes, signs), rendered under 6 (top, sub) pattern pairs in shuffled input orders; the harness "
      "enumerates all parses of each string (exactly one demanded) and TLC judges the read-back tree, as an unordered tree, "
      "against TreeOf(c); all input orders must give the identical string; every third chain has modes with the default "
      "branching fraction 0.",
      CH_NOTE, "DESIGN.md section 5, C13")
check("C14",
      "TLA+ stack machine (spec/Descriptor.tla) model-checked with TLC; TLC-generated behaviours replayed into real with-blocks",
      "TLC checks RestoresEntry / InvalidInert exhaustively on the abstract state graph (2 context objects, 3 valid + 2 invalid "
      "patterns, nesting <= 3) and refutes the two designs the property forbids; every transition of that graph (through a "
      "shortest path), every operation sequence up to a length bound, random walks of length 14 and random walks with nesting "
      "up to 12 that then leave every open block (EmitMode drain) are replayed with real `with` statements, comparing DescriptorFormat.config and a rendered, read-back descriptor after every step.",
      "Trusts TLC, the descriptor reader of harness/descriptor.py and Python's with-statement semantics; pattern ids are "
      "concretised from finite pools of spellings.",
      "DESIGN.md section 5, C14")

DEC_NOTE = ("Trusts TLC, the renderer/projection of harness/decio.py (abstract names, words, literals and model names "
            "are concretised from pools covering the label alphabet, every literal form and all 135 model names; observed "
            "values are mapped back by exact float equality) and the installed particle data for the PDG conjugation relation.")

check("C01",
      "TLA+ statement-level semantics of parse() (spec/DecParse.tla, machine in DecGen.tla) model-checked with TLC; "
      "TLC-generated and random files parsed by the real code, observations validated by TLC (spec/DecTrace.tla)",
      "TLC checks on every file of the bounded universe that the phase machine of parse() yields FirstBlocks (one table per "
      "distinct mother, first block kept, file order) with every line's fields as written; every file of that universe (quick: "
      "a rotating window), simulated longer files and seeded random files of up to 40 statements are rendered with pooled "
      "spellings, parsed by the real DecFileParser, and the projected public answers (mother list, number_of_decays, "
      "list_decay_modes, build_decay_chains, print_decay_modes) are judged clause by clause by TLC against the specification.",
      DEC_NOTE, "DESIGN.md section 5, C01")
check("C02",
      "TLA+ lexical-item model of the grammar's line structure with a table of neutral layout edits (spec/DecSyntax.tla), Sound and "
      "Tight model-checked with TLC; TLC-emitted edit scripts applied to real texts, metamorphic snapshot comparison",
      "TLC checks, on two base texts and every sequence of <= 2 (thorough: 3) allowed edits (blanks, blank lines, comment lines, "
      "trailing comments, wrapped option lists, commas, repeated semicolons, CRLF), that the automaton of the grammar accepts the "
      "edited text with the same meaning (Sound) and that a line end where the table forbids it breaks the text (Tight). Every "
      "emitted script (quick: a window) is applied at item level to the rendered text, packaged at random (string; file(s) with "
      "BOM, split at line boundaries, per-file End, missing final line end, CRLF) and parsed by the real code; random compositions "
      "of the same edits (12 000 option-list sites from Lark's token offsets) are applied to both master files and every "
      "tests/data file; the snapshot of every public query must be identical.",
      "Trusts TLC, harness/c02.py (text-level application of the edits) and Lark's recorded token offsets (placement only). "
      "Domain: wrapped continuation lines do not start with 'End'; '' and [] both denote an absent parameter list.",
      "DESIGN.md section 5, C02")
check("C03",
      "TLA+ semantics of CDecay / ChargeConj (spec/DecParse.tla P_Conj, ConjOf) model-checked with TLC; files parsed three "
      "ways by the real code and validated by TLC (spec/DecTrace.tla JudgeC03)",
      "TLC checks C03_Exact / SourcesUntouched / InclOff on every file of the bounded universe (PDG pair, declared pairs in both "
      "orientations, self-conjugate and unknown names, CopyDecay as source, Decay precedence). Each generated file (exhaustive "
      "universe, simulated, random over the real EvtGen names) is parsed with conjugates on, off and with the CDecay statements "
      "removed; TLC judges that tables are added exactly for CDecay names with a source, that each is the line-by-line conjugate "
      "of the *observed* source under ConjOf, and that nothing else changed.",
      DEC_NOTE, "DESIGN.md section 5, C03")
check("C05",
      "TLA+ semantics of ModelAlias / Define replacement (spec/DecParse.tla P_Alias, P_Values, ExpandDefs) model-checked with TLC; "
      "file and textual expansion both parsed by the real code and validated by TLC (spec/DecTrace.tla JudgeC05)",
      "TLC checks C05_Expansion (parse(src) = parse(ExpandDefs(src))) on every file of the bounded universe. Each generated file and "
      "its expansion (computed by the harness, re-checked by TLC to equal ExpandDefs) are parsed by the real code; TLC judges that "
      "both give the same tables and that model/parameters of every table - Decay, copied, conjugated - are the expansion with the "
      "last definition winning.",
      DEC_NOTE, "DESIGN.md section 5, C05")

QRY_NOTE = ("Trusts TLC and the projections of harness/decquery.py; the unfolding is judged against the tables the parser "
            "itself reports through list_decay_modes / build_decay_chains(stable = all daughters), so a table-reading defect "
            "is left to C01; inputs are acyclic table sets (TLC re-checks acyclicity of every case).")
check("C08",
      "TLA+ heap model of a parser instance over time (spec/DecSession.tla) model-checked with TLC for four sharing designs; "
      "TLC-generated histories replayed on one real instance and the recorded event traces validated by TLC (trace mode)",
      "TLC shows QueryPure / PokeFrame / NoSharing hold for the design with independent derived tables and fresh return values and "
      "refutes the three sharing designs (copy shares lines, conjugation in place, query returns internal object). Histories over "
      "19 queries, in-place vandalism of returned values, white-box pokes of one table and re-parse (transition cover, all "
      "sequences to a bound, random walks of length 10) are replayed on one real instance over 4 files; after every step each "
      "table's answers are classified against a freshly parsed instance and TLC validates the event trace against the spec's "
      "actions; copy = source but for the mother and node-identity disjointness are checked on the fresh instance; a copy "
      "clause (every CopyDecay with a source gets exactly one table equal to the source's, every table listed once) is judged "
      "by TLC on random files with several CopyDecay statements.",
      "Trusts TLC and harness/c08.py; poke and identity comparison use the private attribute _parsed_decays (skipped with a note "
      "if a refactoring removes it); 'fresh instance' is the oracle the property itself names.",
      "DESIGN.md section 5, C08")
check("C09",
      "TLA+ recursive unfolding operator ChainEntries (spec/DecParse.tla) with TLC-checked lemmas; chains recorded from the real "
      "build_decay_chains validated by TLC (spec/DecQuery.tla JudgeC09)",
      "TLC checks structural lemmas of ChainEntries on every acyclic table set of the bounded universe (root entries = lines, "
      "everything stable => nothing unfolded, a daughter is unfolded iff it has a table and is not in S). For table sets of that "
      "universe, simulated larger ones and every eligible mother of the shipped .dec files, with stable sets (empty, all daughters, "
      "single daughters, random subsets), the chain returned by the real code is judged by TLC to equal ChainEntries over the "
      "observed tables, and a missing table must raise DecayNotFound.",
      QRY_NOTE, "DESIGN.md section 5, C09")
check("C10",
      "TLA+ enumeration of path choices PathChoices / counting recursion NPaths (spec/DecParse.tla), TLC-checked to agree; "
      "descriptors recorded from the real expand_decay_modes read back into trees and validated as a bag by TLC (JudgeC10)",
      "TLC checks |PathChoices| = NPaths on every acyclic table set of the bounded universe (aliases, empty blocks, repeated "
      "decaying daughters). For those table sets, simulated larger ones and every shipped-file mother below the path bound, every "
      "descriptor returned by the real code is read back by bracket matching and TLC judges that the bag of trees (children "
      "unordered) equals the bag of choices and that the length is the sum of products.",
      QRY_NOTE, "DESIGN.md section 5, C10")

check("C04",
      "TLA+ statement of conjugation on PDG ids (spec/Conj.tla: ConjE, ConjP, ConjBag) with the property's theorems checked by TLC "
      "on the whole installed tables; exhaustive call traces of the real code validated by TLC",
      "TLC evaluates id negation, involution, closure, 'unknown never altered' and agreement of the PDG-name route on all 806 "
      "EvtGen and 1014 PDG names (data exported from the installed particle package, ids as strings). Every name is then "
      "conjugated by the real utility under both namings and three call styles in long shuffled sequences with near and far "
      "repeats (the 64-entry cache is cycled many times), each result and its re-conjugation judged by TLC; random final "
      "states and decay modes (multiplicities 1..5, JSON-like metadata) and the CDecay route for the same decays are judged "
      "against ConjBag, with cross-layer agreement; the parse-tree visitor (ChargeConjugateReplacement) is applied once and twice "
      "to hand-built decay trees; metadata carrying the documented defaults (None, empty values) must survive with their types.",
      "Trusts TLC and the installed particle data (ids, self-conjugate flags, name maps) as the reference.",
      "DESIGN.md section 5, C04")
check("C06",
      "TLA+ model of the MODEL_NAME terminal (spec/ModelMatch.tla: ordered alternation with word boundary vs declarative longest "
      "match) checked by TLC; exhaustive concrete cases over all 135 published names judged by TLC on the real strings",
      "TLC checks, over all words of <= 5 characters on an abstract alphabet and a name list with prefix, underscore and hyphen "
      "relations, that the longest-first ordered alternation equals the declarative longest match, that every listed name is "
      "itself, that word-character extensions are labels, and refutes the unsorted alternation. Concretely every published "
      "name x PHOTOS x parameter forms x neighbours that extend model names, all prefix-related pairs side by side, registered "
      "name families overlapping published names (registered in one or two calls, also after grammar()/grammar_info() was "
      "called, also parsed twice), near-miss unknown words and defined aliases "
      "are parsed by the real code; TLC classifies the real word against the real name list and judges acceptance, verbatim "
      "reporting, untouched neighbours and rejection.",
      "Trusts TLC (string operators) and harness/c06.py; registered names end in a word character.",
      "DESIGN.md section 5, C06")
check("C07",
      "TLA+ specification of the eleven global queries (spec/DecGlobals.tla: left fold = declarative last-wins reading, checked "
      "by TLC); files parsed by the real code and all queries validated by TLC",
      "TLC checks on every file of <= 3 (thorough: 4) statements over a 36-statement universe that the statement-by-statement "
      "fold and the declarative reading of the property agree (keys = all declared names, value of the last declaration, lists "
      "keep every statement, repeated lineshape setting = error, PHOTOS flag = last one / off). Every file of that universe "
      "(quick: a window) and random files with all statement kinds are parsed by the real code; TLC judges the projection of "
      "every query, including value types (JetSet int vs float) and the reference width in GeV.",
      "Trusts TLC, the renderer/projection of harness/c07.py, and the particle package for reference widths.",
      "DESIGN.md section 5, C07")
check("C15",
      "TLA+ specification of the emitted graph and of the process-wide node counter (spec/Viewer.tla), counter discipline "
      "model-checked with TLC; DOT sources of real viewer sessions parsed back and validated by TLC (trace mode)",
      "TLC checks that identifiers never repeat across the graphs of a session for the process-wide counter and refutes "
      "per-graph numbering. Sessions of 3 viewers in one process are run on chain dictionaries from build_decay_chains (TLC table "
      "universe and random table sets: up to 6 lines per particle, repeated decaying daughters, empty tables, lines without "
      "daughters, real EvtGen names) and from DecayChain.to_dict(); each DOT source is parsed into a nested node structure and "
      "TLC judges one root, one node + one edge per decay line, cells in order, edge label = that line's bf from the right "
      "slot, nothing else, ids unique within and across graphs, and `dot -Tsvg` exit 0.",
      "Trusts TLC, the DOT reader of harness/c15.py, Graphviz `dot`, and particle's EvtGen -> HTML name map for reading cells back.",
      "DESIGN.md section 5, C15")
check("C16",
      "TLA+ specification of print_decay_modes (spec/DecPrint.tla: Refused, Order, ValueKind) with TLC-checked sorting lemmas; "
      "TLC-enumerated (table, options) cases printed by the real code and the parsed output validated by TLC",
      "TLC enumerates every table (ranks with ties) x every option combination of the bounded universe, checks that the declarative "
      "order equals the stable-sort machine, and emits the cases; each is printed by the real code (bfs drawn from values spanning "
      "1e-12..1, mother by EvtGen or PDG name) and TLC judges refusal, one row per line, order with ties in file order, columns, "
      "that the shown number fits the scaling kind the options select (exact rational arithmetic in the harness, to 1.5 units of the 7th printed digit; tables summing to one within 1e-6 included) and that "
      "stored values are unchanged.",
      "Trusts TLC, the stdout row parser of harness/c16.py (rows identified by their unique daughters) and Fraction arithmetic.",
      "DESIGN.md section 5, C16")

AMP_NOTE = ("Trusts TLC and harness/ampio.py: abstract names are concretised to AmpGen-style names with fixed PDG ids / spin "
            "classes (reference table in the harness); inside a worker process each distinct name is resolved once by the real "
            "particle_from_string_name and re-used (the installed particle package needs ~0.5 s per fuzzy search).")
check("C17",
      "TLA+ specification of the reader (spec/AmpGen.tla: ExpandTree = ordered cartesian expansion, NAmp = counting recursion, "
      "CouplingKind) with count = sum of products model-checked by TLC; real read_ampgen results validated by TLC",
      "TLC checks on every ordered choice of lines from a pool (full, partial, nested, alternative sub-lines, tags) x option "
      "absent/0/1 that the expansion has exactly sum-of-products amplitudes and that each is a complete tree. Every file of that "
      "universe (quick: a window) and random files (depth-3 nesting, 0..3 alternatives per resonance, parameter / constant "
      "lines, the other option and ignored line kinds, comments, blank lines) are rendered and read by the three reader "
      "classes; TLC judges event type, amplitude trees with tags in file order, polar vs cartesian coupling (the harness "
      "classifies the observed complex number against both readings at 1e-12), parameter and constant tables, and that no "
      "text raises.",
      AMP_NOTE, "DESIGN.md section 5, C17")

check("C18",
      "TLA+ definition of the Bose-symmetrised permutations (Perms) and of the expected emission of one amplitude "
      "(spec/AmpEmit.tla: spin-structure table, L rules, vertex order, mass indices); real list_structure and generated "
      "code of both languages validated by TLC",
      "Exhaustively for every binary tree shape over every sub-multiset of final states of up to 4 particles in every "
      "multiplicity pattern, the permutations returned by the real list_structure are judged by TLC to be exactly the "
      "injective assignments, each once. Random four-body lines over all supported spin structures, both topologies, all four "
      "lineshape kinds and 4 event types are converted by GooFitChain and GooFitPyChain; the code is read back and TLC judges, "
      "per permutation, the spin factor(s) with that permutation, one lineshape per resonance with kind, L and mass indices, "
      "and the declared count; unsupported orders must be refused.",
      AMP_NOTE + " Spin letter / J of the pool resonances and the table of supported spin structures are reference data.",
      "DESIGN.md section 5, C18")

check("C19",
      "TLA+ model of a generated program as declare / use / amplitude events (spec/AmpEmit.tla: DeclaredBeforeUse, model "
      "equality clauses); both generated programs recorded as event traces - the Python text by executing it against a "
      "recording goofit stand-in - and validated by TLC",
      "For the shipped model and generated four-body files (all supported spin structures and lineshape kinds with their "
      "spline / K-matrix parameter families, fixed and free couplings, fit parameters) both converters are run with and "
      "without ret_output (and through `python -m decaylanguage -G ...` for a subset). The Python text is compiled and executed "
      "in a recording namespace (every assignment a declaration, every look-up a use, an undeclared symbol a NameError); the "
      "C++ text is scanned. TLC judges declared-before-use for both, equality of event type, mass constants, resonance "
      "variables, fit parameters (name, value, error, fixedness) and of the amplitude list (coefficient names, values, "
      "fixedness, spin factors, lineshapes, counts), fit parameters equal to those of the input file, distinct _r/_i names, "
      "amplitudes once each in input order, returned = printed, and the command line giving the same lines.",
      AMP_NOTE + " The C++ text is read with regular expressions; sA_0 is exempt for the shipped model, which does not define sA0.",
      "DESIGN.md section 5, C19")

check("C20",
      "TLA+ model of the process-wide reader state (spec/AmpSession.tla: shared particle set, class-attribute look-up of the "
      "cartesian switch, particle table, memoised index lists) model-checked with TLC for six designs; TLC-emitted histories executed in fresh interpreters and "
      "compared with single fresh calls",
      "TLC checks HistoryIndependent over every history of <= 4 calls (3 reader classes x 8 files, one of them rejected after its "
      "option was applied, one naming a particle the special particle table overrides) for the per-read design and refutes the "
      "accumulating one (F8, F13), the one that skips the restore when a read is rejected and the one that loads the special "
      "particle table on demand, the one that writes a file's mass / width parameters into shared particle objects and the one "
      "that memoises index lists per amplitude structure. Histories of 2 and 3 calls emitted by TLC (a sample per run) are executed "
      "each in its own fresh interpreter over 8 real files (disjoint / overlapping resonances, option absent / 0 / 1, two event-type orders, amplitude names of up to 76 characters); every "
      "call's observable result (amplitudes, tables, text as a line multiset without the timestamp) must equal that of the "
      "same single call in a fresh interpreter; single calls are repeated under several PYTHONHASHSEED values; histories are "
      "re-run in a second fresh process and must reproduce the text exactly; the recorded histories are validated by TLC as "
      "traces of AmpSession (declared resonance variables, coupling kind).",
      "Trusts TLC and harness/c20.py; each fresh interpreter costs ~10 s (imports + particle look-ups), so a run samples the "
      "emitted histories (seeded) rather than executing all of them.",
      "DESIGN.md section 5, C20")

ALL = [f"C{i:02d}" for i in range(1, 21)]


def build() -> dict:
    checks = []
    for pid in ALL:
        if pid not in CHECKS:
            continue
        technique, text, note, ref = CHECKS[pid]
        checks.append({
            "property_id": pid,
            "quick_cmd": f"bin/check {pid} --tier quick",
            "thorough_cmd": f"bin/check {pid} --tier thorough",
            "evidence_file": f"/verif/evidence/{pid}.json",
            "replay_cmd_template": f"bin/check {pid} --replay {{path}}",
            "engine": "tlc-conformance",
            "level_claimed": {"category": "model_checking", "text": text, "design_ref": ref},
            "level_note": note,
            "technique": technique,
        })
    na = [{"property_id": p, "reason": NOT_APPLICABLE.get(p, "check not built yet in this round (planned: DESIGN.md section 5); nothing is claimed")}
          for p in ALL if p not in CHECKS]
    return {
        "version": 1,
        "setup_cmd": "bin/setup",
        "hooks": {
            "guard": "DECAYLANGUAGE_VERIF",
            "enable": "environment variable DECAYLANGUAGE_VERIF=1 (set by bin/check); /repo/src is put first on sys.path, nothing is built",
            "baseline_off_cmd": "cd /repo && env -u DECAYLANGUAGE_VERIF /venv/bin/python -m pytest -ra -q -p no:cacheprovider --timeout=900 --continue-on-collection-errors",
            "source_commits": json.loads((ROOT / "hooks.json").read_text())["source_commits"] if (ROOT / "hooks.json").exists() else [],
            "add_only": True,
        },
        "engines": [{
            "name": "tlc-conformance",
            "path": "/verif/harness",
            "serves_properties": sorted(CHECKS),
            "kind_free_text": "TLA+ specifications in /verif/spec checked with TLC 1.8; behaviours emitted by TLC are replayed "
                              "into the real code (S->C) and traces recorded from the real code are validated by TLC (C->S)",
        }],
        "checks": checks,
        "not_applicable": na,
        "notes": "Exit codes: 0 held, 1 violation (VIOLATION line + replay file), 2 machinery failure. "
                 "VERIF_SEED seeds every random choice. Known findings: /verif/known_findings.json.",
    }


if __name__ == "__main__":
    (ROOT / "MANIFEST.json").write_text(json.dumps(build(), indent=1) + "\n")
    import subprocess
    subprocess.run(["python3-vt", "-c",
                    "import json,jsonschema;jsonschema.validate(json.load(open('/verif/MANIFEST.json')),"
                    "json.load(open('/root/.vp/MANIFEST.schema.json')));print('MANIFEST.json valid')"], check=True)
    print("MANIFEST.json written:", len(CHECKS), "checks")
