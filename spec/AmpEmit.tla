------------------------------ MODULE AmpEmit ------------------------------
(***************************************************************************)
(* What the GooFit converters must emit for one amplitude (C18) and the    *)
(* emitted program as a sequence of declare / use events (C19).            *)
(*                                                                         *)
(* An amplitude line is a tree; every node carries, besides what is        *)
(* written (name, sf, ls), reference data the harness supplies for the     *)
(* particle: letter (spin letter: S V A T, s t for pseudo-scalar/tensor),  *)
(* J (spin), lskind (RBW | GSpline | kMatrix | FOCUS, from the tag).       *)
(* finals = the event-type particles without the mother, in order.         *)
(***************************************************************************)
EXTENDS Naturals, Integers, Sequences, FiniteSets, TLC, SequencesExt, VerifIO, Json, IOUtils

RangeOf(s) == {s[i] : i \in DOMAIN s}
MapSeq(s, F(_)) == [i \in DOMAIN s |-> F(s[i])]
RECURSIVE Flat(_)
Flat(ss) == IF ss = <<>> THEN <<>> ELSE Head(ss) \o Flat(Tail(ss))
BagOfSeq(s) == [x \in RangeOf(s) |-> Cardinality({i \in DOMAIN s : s[i] = x})]

RECURSIVE LeafSeq(_)
LeafSeq(t) == IF t.kids = <<>> THEN <<t.name>> ELSE LeafSeq(t.kids[1]) \o LeafSeq(t.kids[2])
Perms(t, finals) ==
    LET leaves == LeafSeq(t)
    IN {p \in [DOMAIN leaves -> DOMAIN finals] :
            /\ \A i \in DOMAIN leaves : finals[p[i]] = leaves[i]
            /\ \A i, j \in DOMAIN leaves : i # j => p[i] # p[j]}

IsVertex(t) == Len(t.kids) = 2
Topology(t) == IF IsVertex(t.kids[1]) /\ IsVertex(t.kids[2]) THEN "12_34" ELSE "1_2_34"

Abs(x) == IF x < 0 THEN -x ELSE x
Min3(a, b, c) == IF a <= b /\ a <= c THEN a ELSE IF b <= c THEN b ELSE c
\* orbital angular momentum of a vertex: the written S/P/D, otherwise the smallest allowed
LOf(t) ==
    IF t.sf = "S" THEN 0 ELSE IF t.sf = "P" THEN 1 ELSE IF t.sf = "D" THEN 2
    ELSE LET S == t.J s1 == t.kids[1].J s2 == t.kids[2].J
         IN Min3(Abs(S - s1 - s2), Abs(S + s1 - s2), Abs(S - s1 + s2))

Wave(sf) == IF sf \in {"-", "S"} THEN "" ELSE sf
SpinDetails(t) ==
    IF Topology(t) = "12_34"
    THEN LET a == t.kids[1].letter \o "1" b == t.kids[2].letter \o "2"
         IN "Dto" \o a \o b \o "_" \o a \o "toP1P2_" \o b \o "toP3P4" \o (IF Wave(t.sf) = "" THEN "" ELSE "_" \o t.sf)
    ELSE LET a == t.kids[1].letter \o "1" b == t.kids[1].kids[1].letter \o "2"
             w == IF Wave(t.kids[1].sf) = "" THEN "" ELSE t.kids[1].sf \o "wave"
         IN "Dto" \o a \o "P1_" \o a \o "to" \o b \o "P2" \o w \o "_" \o b \o "toP3P4"

\* the supported spin structures and the spin factor each one uses
Known == [DtoA1P1_A1toS2P2_S2toP3P4 |-> "DtoAP1_AtoSP2_StoP3P4",
          DtoA1P1_A1toV2P2Dwave_V2toP3P4 |-> "DtoAP1_AtoVP2Dwave_VtoP3P4",
          DtoA1P1_A1toV2P2_V2toP3P4 |-> "DtoAP1_AtoVP2Dwave_VtoP3P4",
          DtoS1S2_S1toP1P2_S2toP3P4 |-> "ONE",
          DtoT1P1_T1toV2P2_V2toP3P4 |-> "DtoTP1_TtoVP2_VtoP3P4",
          DtoV1S2_V1toP1P2_S2toP3P4 |-> "DtoVS_VtoP1P2_StoP3P4",
          DtoV1V2_V1toP1P2_V2toP3P4 |-> "DtoV1V2_V1toP1P2_V2toP3P4_S",
          DtoV1V2_V1toP1P2_V2toP3P4_D |-> "DtoV1V2_V1toP1P2_V2toP3P4_D",
          DtoV1V2_V1toP1P2_V2toP3P4_P |-> "DtoV1V2_V1toP1P2_V2toP3P4_P",
          Dtos1P1_s1toS2P2_S2toP3P4 |-> "DtoPP1_PtoSP2_StoP3P4",
          Dtos1P1_s1toV2P2_V2toP3P4 |-> "DtoPP1_PtoVP2_VtoP3P4"]
\* in the cascade topology the resonance is written before the bachelor
WellShaped(t) == Topology(t) = "12_34" \/ t.kids[1].kids # <<>>
Details(t) == IF WellShaped(t) THEN SpinDetails(t) ELSE "bachelor-first"
Supported(t) == WellShaped(t) /\ SpinDetails(t) \in DOMAIN Known

FormFactor(t) ==
    LET norm == Topology(t) = "12_34" L == LOf(t)
    IN IF L = 1 THEN (IF norm THEN "FF_12_34_L1" ELSE "FF_123_4_L1")
       ELSE IF L = 2 THEN (IF norm THEN "FF_12_34_L2" ELSE "FF_123_4_L2") ELSE "none"
SpinFactors(t) == <<Known[SpinDetails(t)]>> \o (IF LOf(t) > 0 THEN <<FormFactor(t)>> ELSE <<>>)

RECURSIVE Vertexes(_)
Vertexes(t) == Flat(MapSeq(t.kids, LAMBDA k : IF IsVertex(k) THEN <<k>> \o Vertexes(k) ELSE <<>>))

Num(i) == ToString(i)
Masses(t, p) ==
    IF Topology(t) = "12_34"
    THEN << "M_" \o Num(p[1]) \o Num(p[2]), "M_" \o Num(p[3]) \o Num(p[4]) >>
    ELSE << "M_" \o Num(p[1]) \o Num(p[2]) \o "_" \o Num(p[3]), "M_" \o Num(p[1]) \o Num(p[2]) >>

\* expected emission: per permutation the spin factor(s) carrying it and one lineshape per resonance
ExpSF(t, finals) ==
    BagOfSeq(Flat(MapSeq(SetToSeq(Perms(t, finals)), LAMBDA p :
        MapSeq(SpinFactors(t), LAMBDA sf : [name |-> sf, idx |-> p]))))
ExpLS(t, finals) ==
    BagOfSeq(Flat(MapSeq(SetToSeq(Perms(t, finals)), LAMBDA p :
        LET vs == Vertexes(t) ms == Masses(t, p)
        IN [i \in DOMAIN vs |-> [kind |-> vs[i].lskind, res |-> vs[i].name, L |-> LOf(vs[i]), mass |-> ms[i]]])))

\* the i-th group of spin factors and the i-th group of lineshapes belong to the same permutation
ExpGroups(t, finals) ==
    BagOfSeq(MapSeq(SetToSeq(Perms(t, finals)), LAMBDA p :
        [sfs |-> MapSeq(SpinFactors(t), LAMBDA sf : [name |-> sf, idx |-> p]),
         lss |-> LET vs == Vertexes(t) ms == Masses(t, p)
                 IN [i \in DOMAIN vs |-> [kind |-> vs[i].lskind, res |-> vs[i].name, L |-> LOf(vs[i]), mass |-> ms[i]]]]))

----------------------------------------------------------------------------
(* judging.  C18E: one amplitude in one language:
     [line, finals, lang, obs = [raised, sfs = Seq([name, idx (1-based)]), lss = Seq([kind,res,L,mass]), n, title_ok]]
   C19:  one converted file in both languages: [obs = [cpp, py, ...]] see JudgeC19 *)
Cases == JsonDeserialize(IOEnv.TRACE_FILE)
VARIABLES tid, done

JudgeC18E(t, k) ==
    LET ln == k.line fin == k.finals o == k.obs IN
    IF ~Supported(ln)
    THEN ChkD(t, "C18:unsupported-spin-structure-is-refused-not-emitted", o.raised # "-", [details |-> Details(ln)])
    ELSE IF ~ChkD(t, "C18:supported-amplitude-is-emitted", o.raised = "-", [error |-> o.raised, details |-> Details(ln)]) THEN FALSE
    ELSE AllOf(<<
        ChkD(t, "C18:declared-number-of-permutations", o.n = Cardinality(Perms(ln, fin)), [exp |-> Cardinality(Perms(ln, fin)), obs |-> o.n]),
        ChkD(t, "C18:spin-factors-per-permutation-carry-that-permutation",
             BagOfSeq(o.sfs) = ExpSF(ln, fin), [exp |-> ExpSF(ln, fin), obs |-> o.sfs]),
        ChkD(t, "C18:one-lineshape-per-resonance-per-permutation-kind-L-and-mass-indices",
             BagOfSeq(o.lss) = ExpLS(ln, fin), [exp |-> ExpLS(ln, fin), obs |-> o.lss]),
        ChkD(t, "C18:spin-factors-and-lineshapes-of-one-permutation-go-together",
             BagOfSeq(o.groups) = ExpGroups(ln, fin), [exp |-> ExpGroups(ln, fin), obs |-> o.groups]) >>)

\* C19: events of a generated program.  ev = [k ("decl" | "use" | "amp"), sym, ...]
DeclaredBeforeUse(evs, exempt) ==
    \A i \in DOMAIN evs : evs[i].k = "use" /\ evs[i].sym \notin exempt =>
        \E j \in 1..(i - 1) : evs[j].k = "decl" /\ evs[j].sym = evs[i].sym
UndeclaredUses(evs, exempt) ==
    {evs[i].sym : i \in {i \in DOMAIN evs : evs[i].k = "use" /\ evs[i].sym \notin exempt /\
                              ~\E j \in 1..(i - 1) : evs[j].k = "decl" /\ evs[j].sym = evs[i].sym}}

JudgeC19(t, k) ==
    LET o == k.obs IN
    IF ~ChkD(t, "C19:file-converts-to-both-languages", o.cpp.raised = "-" /\ o.py.raised = "-",
             [cpp |-> o.cpp.raised, py |-> o.py.raised]) THEN FALSE
    ELSE AllOf(<<
        ChkD(t, "C19:cpp-every-model-symbol-declared-before-use", DeclaredBeforeUse(o.cpp.events, RangeOf(k.exempt)),
             [undeclared |-> UndeclaredUses(o.cpp.events, RangeOf(k.exempt))]),
        ChkD(t, "C19:py-every-model-symbol-declared-before-use", DeclaredBeforeUse(o.py.events, RangeOf(k.exempt)),
             [undeclared |-> UndeclaredUses(o.py.events, RangeOf(k.exempt))]),
        ChkD(t, "C19:python-output-runs-against-the-goofit-api", o.py.exec_error = "-", [error |-> o.py.exec_error]),
        ChkD(t, "C19:same-event-type-and-mass-constants", o.cpp.model.event = o.py.model.event /\
                 BagOfSeq(o.cpp.model.consts) = BagOfSeq(o.py.model.consts),
             [cpp |-> o.cpp.model.consts, py |-> o.py.model.consts]),
        ChkD(t, "C19:same-resonance-mass-width-variables", BagOfSeq(o.cpp.model.resvars) = BagOfSeq(o.py.model.resvars),
             [cpp |-> o.cpp.model.resvars, py |-> o.py.model.resvars]),
        ChkD(t, "C19:same-fit-parameters-name-value-error-fixedness", BagOfSeq(o.cpp.model.pars) = BagOfSeq(o.py.model.pars),
             [cpp |-> o.cpp.model.pars, py |-> o.py.model.pars]),
        \* ... and they are the parameters the input file states (k.input_pars: [raw name, value, error | "fixed"])
        ChkD(t, "C19:fit-parameters-are-those-of-the-input-file",
             BagOfSeq(MapSeq(o.cpp.model.pars, LAMBDA p : <<p[2], p[3], p[4]>>)) = BagOfSeq(k.input_pars) /\
             BagOfSeq(MapSeq(o.py.model.pars, LAMBDA p : <<p[2], p[3], p[4]>>)) = BagOfSeq(k.input_pars),
             [input |-> k.input_pars, cpp |-> o.cpp.model.pars]),
        ChkD(t, "C19:same-amplitudes-in-order-coefficients-spin-factors-lineshapes", o.cpp.model.amps = o.py.model.amps,
             [first_diff |-> LET d == {i \in DOMAIN o.cpp.model.amps : i > Len(o.py.model.amps) \/ o.cpp.model.amps[i] # o.py.model.amps[i]}
                             IN IF d = {} THEN 0 ELSE CHOOSE i \in d : \A j \in d : i <= j,
              ncpp |-> Len(o.cpp.model.amps), npy |-> Len(o.py.model.amps)]),
        ChkD(t, "C19:same-parameter-arrays-with-the-same-members-in-the-same-order",
             BagOfSeq(o.cpp.model.arrays) = BagOfSeq(o.py.model.arrays), [cpp |-> o.cpp.model.arrays, py |-> o.py.model.arrays]),
        \* the spline binning of every GSpline lineshape is one the input file states ([resonance, min, max, n] vs [min, max, n])
        ChkD(t, "C19:spline-binning-is-that-of-the-input-file",
             \A L \in {o.cpp.model.amps, o.py.model.amps} : \A i \in DOMAIN L : \A j \in DOMAIN L[i].splines :
                 <<L[i].splines[j][2], L[i].splines[j][3], L[i].splines[j][4]>> \in RangeOf(k.input_splines),
             [input |-> k.input_splines]),
        ChkD(t, "C19:real-and-imaginary-coefficients-have-distinct-names",
             \A i \in DOMAIN o.py.model.amps : o.py.model.amps[i].re_name # o.py.model.amps[i].im_name, [lang |-> "py"]),
        ChkD(t, "C19:real-and-imaginary-coefficients-have-distinct-names",
             \A i \in DOMAIN o.cpp.model.amps : o.cpp.model.amps[i].re_name # o.cpp.model.amps[i].im_name, [lang |-> "cpp"]),
        ChkD(t, "C19:amplitudes-once-each-in-input-order", o.cpp.model.amp_titles = k.titles /\ o.py.model.amp_titles = k.titles,
             [exp |-> k.titles, cpp |-> o.cpp.model.amp_titles, py |-> o.py.model.amp_titles]),
        Chk(t, "C19:returned-string-is-the-printed-text-cpp", o.cpp.returned_is_printed),
        Chk(t, "C19:returned-string-is-the-printed-text-py", o.py.returned_is_printed),
        Chk(t, "C19:command-line-entry-point-gives-the-same-text", o.cli_same) >>)

Judge(t, k) == CASE k.prop = "C18E" -> JudgeC18E(t, k) [] k.prop = "C19" -> JudgeC19(t, k)
                 [] OTHER -> Chk(t, "MACHINERY:unknown-prop", FALSE)

Init == tid = 0 /\ done = FALSE
Next ==
    \/ /\ tid = 0 /\ tid' \in 1..Len(Cases) /\ done' = FALSE
    \/ /\ tid > 0 /\ ~done /\ Verdict(tid, Judge(tid, Cases[tid])) /\ done' = TRUE /\ tid' = tid
=============================================================================
