------------------------------ MODULE ModeView ------------------------------
(***************************************************************************)
(* Growth beyond the listed properties: the read-only views of a single    *)
(* DecayMode that no listed property owns -                                *)
(*   describe()   the "high-density" text: a head line with the daughters  *)
(*                (grouped by first occurrence: a named deviation from the *)
(*                canonical order) and the branching fraction, a line with *)
(*                the decay model and its parameters, and - only when the  *)
(*                mode carries further metadata - an "Extra info:" block   *)
(*                with one line per key, in the order the keys were given  *)
(*   to_dict()    keys bf, fs, model, model_params, then the further keys  *)
(*                in the order given; a missing parameter list reads ''    *)
(*   len()        daughters counted with multiplicity                      *)
(*   str()        the daughters and the branching fraction                 *)
(* A mode is [ds, bf, model, params, extras]: ds a sequence of daughter     *)
(* names as the caller wrote them, params "none" (argument absent or None),*)
(* "empty" ('') or a token, extras a sequence of <<key, value>> pairs.     *)
(* Named deviation, modelled as the code has it: the text ends in a line   *)
(* break exactly when there is an "Extra info:" block.                     *)
(* TLC enumerates every mode of a small universe (Mode = "gen"), the       *)
(* harness builds the real object through three constructor forms, and TLC *)
(* judges what the views returned (Mode = "trace").                        *)
(***************************************************************************)
EXTENDS Naturals, Sequences, FiniteSets, Bags, TLC, SequencesExt, Functions, Folds, VerifIO, Json, IOUtils

CONSTANTS Mode, MaxDs, MaxExtras

Names == {"x", "y", "z"}
Rank == [n \in Names |-> CASE n = "x" -> 1 [] n = "y" -> 2 [] n = "z" -> 3]
Keys == <<"k1", "k2", "k3">>

SeqsUpTo(S, n) == UNION {[1..m -> S] : m \in 0..n}
\* extras: injective key sequences (a dictionary has every key once), in any order, each with its own value token
ExtraSeqs == {s \in SeqsUpTo({Keys[i] : i \in 1..MaxExtras}, MaxExtras) : \A i, j \in DOMAIN s : i # j => s[i] # s[j]}
Modes == {[ds |-> d, bf |-> "b", model |-> m, params |-> p, extras |-> [i \in DOMAIN e |-> <<e[i], "v_" \o e[i]>>]] :
            d \in SeqsUpTo(Names, MaxDs), m \in {"none", "M1"}, p \in {"none", "empty", "p1"}, e \in ExtraSeqs}

----------------------------------------------------------------------------
(* the views *)
Sorted(ds, rank) == SortSeq(ds, LAMBDA a, b : rank[a] < rank[b])
ModelOf(m) == IF m.model = "none" THEN "" ELSE m.model            \* the documented default model is the empty string
ParamsText(m) == IF m.params \in {"none", "empty"} THEN "" ELSE m.params

\* Named deviation, modelled as the code has it: describe() lists the daughters as the final state iterates - every
\* distinct name at its first occurrence, repeated by its multiplicity - not in the canonical order of every other view
RECURSIVE Rep(_, _)
Rep(x, n) == IF n = 0 THEN <<>> ELSE <<x>> \o Rep(x, n - 1)
Firsts(ds) == SelectSeq([i \in DOMAIN ds |-> IF \E j \in 1..(i - 1) : ds[j] = ds[i] THEN "" ELSE ds[i]], LAMBDA x : x # "")
Grouped(ds) == LET f == Firsts(ds) IN
               FoldLeft(LAMBDA acc, x : acc \o Rep(x, Cardinality({i \in DOMAIN ds : ds[i] = x})), <<>>, f)

Describe(m, rank) ==
    [head   |-> [daughters |-> Grouped(m.ds), bf |-> m.bf],
     model  |-> [model |-> ModelOf(m), params |-> ParamsText(m)],
     extras |-> m.extras,
     has_extra_block |-> m.extras # <<>>,
     ends_in_linebreak |-> m.extras # <<>>]

ToDict(m, rank) ==
    [keys   |-> <<"bf", "fs", "model", "model_params">> \o [i \in DOMAIN m.extras |-> m.extras[i][1]],
     bf     |-> m.bf,
     fs     |-> Sorted(m.ds, rank),
     model  |-> ModelOf(m),
     params |-> ParamsText(m),
     extras |-> m.extras]

LenOf(m) == Len(m.ds)
BagOfSeq(s) == [x \in {s[i] : i \in DOMAIN s} |-> Cardinality({i \in DOMAIN s : s[i] = x})]

----------------------------------------------------------------------------
Cases == IF Mode = "trace" THEN JsonDeserialize(IOEnv.TRACE_FILE) ELSE <<>>
VARIABLES c, tid, done
vars == <<c, tid, done>>

RankOf(pairs) == [n \in {pairs[i][1] : i \in DOMAIN pairs} |-> pairs[CHOOSE i \in DOMAIN pairs : pairs[i][1] = n][2]]

Judge(t, k) ==
    LET m == k.m o == k.obs rank == RankOf(k.rank) d == Describe(m, rank) td == ToDict(m, rank) IN
    AllOf(<<
      ChkD(t, "G:describe-head-lists-daughters-grouped-by-first-occurrence-and-the-bf", o.describe.head = d.head,
           [exp |-> d.head, obs |-> o.describe.head]),
      ChkD(t, "G:describe-names-model-and-parameters", o.describe.model = d.model, [exp |-> d.model, obs |-> o.describe.model]),
      ChkD(t, "G:describe-extra-block-exactly-when-further-metadata-one-line-per-key-in-order",
           o.describe.has_extra_block = d.has_extra_block /\ o.describe.extras = d.extras,
           [exp |-> d.extras, obs |-> o.describe.extras]),
      Chk(t, "G:describe-ends-in-a-line-break-exactly-with-an-extra-block", o.describe.ends_in_linebreak = d.ends_in_linebreak),
      ChkD(t, "G:to-dict-keys-bf-fs-model-params-then-further-keys-in-order", o.to_dict.keys = td.keys,
           [exp |-> td.keys, obs |-> o.to_dict.keys]),
      ChkD(t, "G:to-dict-values", o.to_dict.bf = td.bf /\ o.to_dict.fs = td.fs /\ o.to_dict.model = td.model
                                  /\ o.to_dict.params = td.params /\ o.to_dict.extras = td.extras,
           [exp |-> td, obs |-> o.to_dict]),
      ChkD(t, "G:len-counts-daughters-with-multiplicity", o.len = LenOf(m), [exp |-> LenOf(m), obs |-> o.len]),
      ChkD(t, "G:str-shows-daughters-in-canonical-order-and-the-bf", o.str = [daughters |-> td.fs, bf |-> m.bf],
           [exp |-> td.fs, obs |-> o.str]),
      Chk(t, "G:views-leave-the-mode-unchanged", o.unchanged) >>)

Init ==
    IF Mode = "gen" THEN c \in Modes /\ tid = 0 /\ done = FALSE
    ELSE c = [ds |-> <<>>, bf |-> "b", model |-> "none", params |-> "none", extras |-> <<>>] /\ tid = 0 /\ done = FALSE

Next ==
    IF Mode = "gen"
    THEN /\ ~done /\ done' = TRUE /\ UNCHANGED <<c, tid>> /\ Emit("case", c)
    ELSE \/ /\ tid = 0 /\ tid' \in 1..Len(Cases) /\ UNCHANGED <<c, done>>
         \/ /\ tid > 0 /\ ~done /\ Verdict(tid, Judge(tid, Cases[tid])) /\ done' = TRUE /\ UNCHANGED <<c, tid>>

\* lemmas relating the views: both list the same daughters, model and further metadata; the text never shows a key twice
ViewsAgree == Mode = "gen" =>
    LET d == Describe(c, Rank) t == ToDict(c, Rank) IN
    /\ BagOfSeq(d.head.daughters) = BagOfSeq(t.fs) /\ d.model.model = t.model /\ d.model.params = t.params /\ d.extras = t.extras
    /\ Len(t.keys) = 4 + Len(c.extras)
    /\ \A i, j \in DOMAIN t.keys : i # j => t.keys[i] # t.keys[j]
    /\ BagOfSeq(t.fs) = BagOfSeq(c.ds) /\ Len(t.fs) = LenOf(c)
\* refuted on purpose: the smallest mode whose text lists the daughters in another order than its dictionary
DescribeIsCanonical == Mode = "gen" => Describe(c, Rank).head.daughters = ToDict(c, Rank).fs
\* a missing parameter list and an empty one cannot be told apart in either view
NoneIsEmpty == Mode = "gen" =>
    \A p \in {"none", "empty"} : Describe([c EXCEPT !.params = p], Rank) = Describe([c EXCEPT !.params = "none"], Rank)
=============================================================================
