----------------------------- MODULE DecWarnings -----------------------------
(***************************************************************************)
(* Growth beyond the listed properties: the warnings of parse() as         *)
(* observable events.  DecParse.tla says which names each diagnostic must  *)
(* list (W_Redefined, W_CopyMiss, W_Both, W_ConjMiss); DecGen.tla checks   *)
(* NothingDroppedSilently on its universes; this module judges the         *)
(* warnings recorded from the real parser, projected to abstract names:    *)
(*   case = [src, base, incl, obs = [redefined, copymiss, both, conjmiss,  *)
(*           other]]  (sequences of names; `other` = unclassified texts)   *)
(* A warning class that is absent is the empty sequence.                   *)
(***************************************************************************)
EXTENDS DecParse, VerifIO, Json, IOUtils

Cases == JsonDeserialize(IOEnv.TRACE_FILE)
VARIABLES tid, done
vars == <<tid, done>>

NoRepeat(s) == \A i, j \in DOMAIN s : s[i] = s[j] => i = j
SetClause(t, name, seq, want) ==
    ChkD(t, name, NoRepeat(seq) /\ RangeOf(seq) = want, [exp |-> want, obs |-> seq])

Judge(t, c) ==
    LET src == c.src o == c.obs IN
    IF ParseFails(src) THEN Chk(t, "G:text-with-undefined-model-label-fails", o.fails)
    ELSE IF ~Chk(t, "G:well-formed-text-accepted", ~o.fails) THEN FALSE
    ELSE AllOf(<<
        SetClause(t, "G:redefined-warning-names-exactly-the-repeated-mothers", o.redefined, W_Redefined(src)),
        SetClause(t, "G:copy-warning-names-exactly-the-copies-without-source", o.copymiss, W_CopyMiss(src)),
        SetClause(t, "G:decay-and-cdecay-warning-names-exactly-the-shadowed-cdecays", o.both, W_Both(src, c.incl)),
        SetClause(t, "G:cdecay-warning-names-exactly-the-cdecays-without-source", o.conjmiss, W_ConjMiss(src, c.base, c.incl)),
        ChkD(t, "G:no-other-warning", o.other = <<>>, [obs |-> o.other]) >>)

Init == tid = 0 /\ done = FALSE
Next ==
    \/ /\ tid = 0 /\ tid' \in 1..Len(Cases) /\ UNCHANGED done
    \/ /\ tid > 0 /\ ~done /\ Verdict(tid, Judge(tid, Cases[tid])) /\ done' = TRUE /\ UNCHANGED tid
=============================================================================
