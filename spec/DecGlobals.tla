----------------------------- MODULE DecGlobals -----------------------------
(***************************************************************************)
(* Global declarations of a .dec file and the eleven queries that report   *)
(* them (C07).  Statements (records with kind k):                          *)
(*   Alias/ChargeConj/CopyDecay [m, src]   Define [m, v]   CDecay [m]      *)
(*   Particle [m, mass, width]       width = "none" when not written       *)
(*   Pythia [cmd, mod, par, val]     val = [t, v], t in float|str          *)
(*   JetSet [mod, num, val]          val = [t, v], t in int|float          *)
(*   LS [ls, m]  BW [m, v]  MassLim [which, m, v]  IncFactor [which, m, b] *)
(*   LSPW [m, d1, d2, n]             Photos [v]  (v = "yes" | "no")        *)
(*   Decay [m, lines]                (only as filler between declarations) *)
(* Values are opaque tokens owned by the harness (literal ids, int ids).    *)
(*                                                                         *)
(* Every query is specified twice: as the left fold over the statements    *)
(* that the code performs (a dictionary updated statement by statement)    *)
(* and declaratively from the property ("keys = all declared names, value  *)
(* = the last declaration; lists keep every statement; a repeated lineshape *)
(* setting is an error; the PHOTOS flag is the last one, off when absent").*)
(* TLC checks that the two agree on every file of the bounded universe     *)
(* (Mode = "gen") and judges recorded observations (Mode = "trace").       *)
(***************************************************************************)
EXTENDS Naturals, Sequences, FiniteSets, TLC, SequencesExt, VerifIO, Json, IOUtils

CONSTANTS Mode, MaxStmts

RangeOf(s) == {s[i] : i \in DOMAIN s}
MaxOf(S) == CHOOSE x \in S : \A y \in S : y <= x
OfKind(src, kind) == SelectSeq(src, LAMBDA s : s.k = kind)

----------------------------------------------------------------------------
(* declarative readings *)

\* a dictionary keyed by Key(s) over the statements satisfying P: last declaration wins
LastWins(src, P(_), Key(_), Val(_)) ==
    LET idx == {i \in DOMAIN src : P(src[i])}
        keys == {Key(src[i]) : i \in idx}
    IN [key \in keys |-> Val(src[MaxOf({i \in idx : Key(src[i]) = key})])]

D_Aliases(src)  == LastWins(src, LAMBDA s : s.k = "Alias", LAMBDA s : s.m, LAMBDA s : s.src)
D_CC(src)       == LastWins(src, LAMBDA s : s.k = "ChargeConj", LAMBDA s : s.m, LAMBDA s : s.src)
D_Copy(src)     == LastWins(src, LAMBDA s : s.k = "CopyDecay", LAMBDA s : s.m, LAMBDA s : s.src)
D_Defs(src)     == LastWins(src, LAMBDA s : s.k = "Define", LAMBDA s : s.m, LAMBDA s : s.v)
\* every CDecay statement accounted for: a bag of names
BagOf(seq) == [x \in RangeOf(seq) |-> Cardinality({i \in DOMAIN seq : seq[i] = x})]
D_CDecays(src)  == BagOf([i \in DOMAIN OfKind(src, "CDecay") |-> OfKind(src, "CDecay")[i].m])
\* Particle: mass and width of the last statement; an absent width is the reference
\* width (in GeV) of the particle, looked up through the Alias table
RefName(src, n) == IF n \in DOMAIN D_Aliases(src) THEN D_Aliases(src)[n] ELSE n
D_Particles(src) ==
    LastWins(src, LAMBDA s : s.k = "Particle", LAMBDA s : s.m,
             LAMBDA s : [mass |-> s.mass,
                         width |-> IF s.width = "none" THEN "ref:" \o RefName(src, s.m) ELSE s.width])
D_Pythia(src)   == LastWins(src, LAMBDA s : s.k = "Pythia", LAMBDA s : <<s.cmd, s.mod, s.par>>, LAMBDA s : s.val)
D_JetSet(src)   == LastWins(src, LAMBDA s : s.k = "JetSet", LAMBDA s : <<s.mod, s.num>>, LAMBDA s : s.val)
\* lineshape settings: (particle, setting) -> value; any repetition is an error
LSKey(s) == CASE s.k = "LS" -> <<s.m, "lineshape">>
              [] s.k = "BW" -> <<s.m, "BlattWeisskopf">>
              [] s.k = "MassLim" -> <<s.m, s.which>>
              [] s.k = "IncFactor" -> <<s.m, s.which>>
LSVal(s) == CASE s.k = "LS" -> s.ls [] s.k = "BW" -> s.v [] s.k = "MassLim" -> s.v [] s.k = "IncFactor" -> s.b
IsLS(s) == s.k \in {"LS", "BW", "MassLim", "IncFactor"}
LS_Error(src) == \E i, j \in DOMAIN src : i < j /\ IsLS(src[i]) /\ IsLS(src[j]) /\ LSKey(src[i]) = LSKey(src[j])
D_LS(src)       == LastWins(src, IsLS, LSKey, LSVal)
D_LSPW(src)     == [i \in DOMAIN OfKind(src, "LSPW") |->
                       LET s == OfKind(src, "LSPW")[i] IN [ps |-> <<s.m, s.d1, s.d2>>, n |-> s.n]]
D_Photos(src)   == LET idx == {i \in DOMAIN src : src[i].k = "Photos"}
                   IN IF idx = {} THEN "no" ELSE src[MaxOf(idx)].v

----------------------------------------------------------------------------
(* the code: one pass over the statements updating dictionaries *)

Upd(f, key, val) == [x \in (DOMAIN f) \cup {key} |-> IF x = key THEN val ELSE f[x]]
Empty == [x \in {} |-> "-"]

FoldMap(src, acc0, P(_), Key(_), Val(_)) ==
    LET RECURSIVE go(_, _)
        go(i, acc) == IF i > Len(src) THEN acc
                      ELSE go(i + 1, IF P(src[i]) THEN Upd(acc, Key(src[i]), Val(src[i])) ELSE acc)
    IN go(1, acc0)

RECURSIVE FoldLSErr(_, _)
FoldLSErr(src, seen) ==
    IF src = <<>> THEN FALSE
    ELSE IF IsLS(Head(src)) THEN (LSKey(Head(src)) \in seen \/ FoldLSErr(Tail(src), seen \cup {LSKey(Head(src))}))
    ELSE FoldLSErr(Tail(src), seen)

RECURSIVE FoldPhotos(_, _)
FoldPhotos(src, cur) ==
    IF src = <<>> THEN cur
    ELSE FoldPhotos(Tail(src), IF Head(src).k = "Photos" THEN Head(src).v ELSE cur)

FoldAgrees(src) ==
    /\ D_Aliases(src) = FoldMap(src, Empty, LAMBDA s : s.k = "Alias", LAMBDA s : s.m, LAMBDA s : s.src)
    /\ D_CC(src) = FoldMap(src, Empty, LAMBDA s : s.k = "ChargeConj", LAMBDA s : s.m, LAMBDA s : s.src)
    /\ D_Defs(src) = FoldMap(src, Empty, LAMBDA s : s.k = "Define", LAMBDA s : s.m, LAMBDA s : s.v)
    /\ D_Pythia(src) = FoldMap(src, Empty, LAMBDA s : s.k = "Pythia", LAMBDA s : <<s.cmd, s.mod, s.par>>, LAMBDA s : s.val)
    /\ D_JetSet(src) = FoldMap(src, Empty, LAMBDA s : s.k = "JetSet", LAMBDA s : <<s.mod, s.num>>, LAMBDA s : s.val)
    /\ D_LS(src) = FoldMap(src, Empty, IsLS, LSKey, LSVal)
    /\ LS_Error(src) = FoldLSErr(src, {})
    /\ D_Photos(src) = FoldPhotos(src, "no")

----------------------------------------------------------------------------
(* generation *)
F(t, v) == [t |-> t, v |-> v]
StmtU ==
    {[k |-> "Alias", m |-> m, src |-> s] : m \in {"a1", "a2"}, s \in {"R1", "R2"}}
    \cup {[k |-> "ChargeConj", m |-> "a1", src |-> "a2"], [k |-> "ChargeConj", m |-> "a2", src |-> "a1"],
          [k |-> "ChargeConj", m |-> "a1", src |-> "R1"]}
    \cup {[k |-> "Define", m |-> "w1", v |-> v] : v \in {"n1", "n2"}}
    \cup {[k |-> "CopyDecay", m |-> "c1", src |-> s] : s \in {"R1", "a1"}}
    \cup {[k |-> "CDecay", m |-> m] : m \in {"a2", "R2"}}
    \cup {[k |-> "Particle", m |-> m, mass |-> "n1", width |-> w] : m \in {"a1", "R1"}, w \in {"none", "n2"}}
    \cup {[k |-> "Pythia", cmd |-> c, mod |-> "q1", par |-> "q2", val |-> v] :
             c \in {"PythiaBothParam", "PythiaAliasParam"}, v \in {F("float", "n1"), F("str", "w1")}}
    \cup {[k |-> "JetSet", mod |-> "J", num |-> "k1", val |-> v] : v \in {F("int", "k2"), F("float", "n1")}}
    \cup {[k |-> "LS", ls |-> l, m |-> "a1"] : l \in {"LSFLAT", "LSNONRELBW"}}
    \cup {[k |-> "BW", m |-> m, v |-> "n1"] : m \in {"a1", "R1"}}
    \cup {[k |-> "MassLim", which |-> w, m |-> "a1", v |-> "n2"] : w \in {"ChangeMassMin", "ChangeMassMax"}}
    \cup {[k |-> "IncFactor", which |-> "IncludeBirthFactor", m |-> "a1", b |-> b] : b \in {"yes", "no"}}
    \cup {[k |-> "LSPW", m |-> "R1", d1 |-> "a1", d2 |-> "a2", n |-> n] : n \in {"k1", "k2"}}
    \cup {[k |-> "Photos", v |-> v] : v \in {"yes", "no"}}
    \cup {[k |-> "Decay", m |-> "R1", lines |-> <<>>]}

VARIABLES src, tid, done
vars == <<src, tid, done>>

FoldEqualsDeclarative == Mode = "gen" => FoldAgrees(src)
\* reachability companions (expected to be violated)
NoOverride == ~(Mode = "gen" /\ \E i, j \in DOMAIN src : i < j /\ src[i].k = "Define" /\ src[j].k = "Define"
                                                          /\ src[i].v # src[j].v)
NoLSError  == ~(Mode = "gen" /\ LS_Error(src))

----------------------------------------------------------------------------
(* judging: case = [src, obs]; obs has one field per query, dictionaries as    *)
(* sequences of [k, v] pairs, or "error" flags                                 *)
Cases == IF Mode = "trace" THEN JsonDeserialize(IOEnv.TRACE_FILE) ELSE <<>>

PairsOK(ps) == \A i, j \in DOMAIN ps : ps[i].k = ps[j].k => i = j
DictClause(t, name, pairs, want) ==
    AllOf(<< ChkD(t, name \o ":keys-are-all-declared-names", PairsOK(pairs) /\ {pairs[i].k : i \in DOMAIN pairs} = DOMAIN want,
                  [exp |-> DOMAIN want, obs |-> {pairs[i].k : i \in DOMAIN pairs}]),
             \A i \in DOMAIN pairs : pairs[i].k \in DOMAIN want =>
                 ChkD(t, name \o ":value-of-last-declaration", pairs[i].v = want[pairs[i].k],
                      [key |-> pairs[i].k, exp |-> want[pairs[i].k], obs |-> pairs[i].v]) >>)

Judge(t, c) ==
    LET s == c.src o == c.obs IN
    AllOf(<<
      DictClause(t, "C07:aliases", o.aliases, D_Aliases(s)),
      DictClause(t, "C07:charge-conjugates", o.cc, D_CC(s)),
      DictClause(t, "C07:definitions", o.defs, D_Defs(s)),
      DictClause(t, "C07:decays-to-copy", o.copy, D_Copy(s)),
      ChkD(t, "C07:cdecay-list-accounts-for-every-statement", BagOf(o.cdecays) = D_CDecays(s),
           [exp |-> D_CDecays(s), obs |-> o.cdecays]),
      IF o.particles_error # "-" THEN ChkD(t, "C07:particle-definitions-reported", FALSE, [error |-> o.particles_error])
      ELSE DictClause(t, "C07:particle-mass-width", o.particles, D_Particles(s)),
      DictClause(t, "C07:pythia", o.pythia, D_Pythia(s)),
      DictClause(t, "C07:jetset", o.jetset, D_JetSet(s)),
      IF LS_Error(s) THEN Chk(t, "C07:repeated-lineshape-setting-is-an-error", o.ls_error)
      ELSE IF ~Chk(t, "C07:lineshape-settings-reported", ~o.ls_error) THEN FALSE
      ELSE DictClause(t, "C07:lineshape-settings", o.ls, D_LS(s)),
      ChkD(t, "C07:lineshapePW-list-keeps-every-statement-in-order", o.lspw = D_LSPW(s),
           [exp |-> D_LSPW(s), obs |-> o.lspw]),
      ChkD(t, "C07:global-photos-flag-is-the-last-one", o.photos = D_Photos(s), [exp |-> D_Photos(s), obs |-> o.photos]) >>)

Init ==
    IF Mode = "gen"
    THEN src \in UNION {[1..n -> StmtU] : n \in 0..MaxStmts} /\ tid = 0 /\ done = FALSE
    ELSE src = <<>> /\ tid = 0 /\ done = FALSE

Next ==
    IF Mode = "gen"
    THEN /\ ~done /\ done' = TRUE /\ UNCHANGED <<src, tid>>
         /\ Emit("case", [src |-> src])
    ELSE \/ /\ tid = 0 /\ tid' \in 1..Len(Cases) /\ UNCHANGED <<src, done>>
         \/ /\ tid > 0 /\ ~done /\ Verdict(tid, Judge(tid, Cases[tid]))
            /\ done' = TRUE /\ UNCHANGED <<src, tid>>
=============================================================================
