---------------------------- MODULE DecSyntaxNeg ----------------------------
(***************************************************************************)
(* Growth beyond the listed properties: a negative corpus for the item     *)
(* automaton of DecSyntax.tla.  C02 only ever applies edits that are       *)
(* promised to be neutral; here the base files are *damaged* - an item     *)
(* deleted, doubled, or exchanged with its neighbour, MaxEdits times - and *)
(* the automaton says for every damaged text whether it is still in the    *)
(* language (Accepts) and, if so, what it now means (Denote).  The harness *)
(* replays every damaged text: the real parser must refuse exactly the     *)
(* texts the automaton refuses (plus those whose only defect is a model    *)
(* label without definition, found after the syntax phase), and must read  *)
(* every accepted one as the canonical rendering of its Denote.            *)
(* This binds the automaton to the Lark grammar on both sides of the       *)
(* language border, not only inside it.                                    *)
(***************************************************************************)
EXTENDS DecSyntax

Ops == {"del", "dup", "swap"}
ApplyNeg(op, xs, p) ==
    CASE op = "del"  -> SubSeq(xs, 1, p - 1) \o SubSeq(xs, p + 1, Len(xs))
      [] op = "dup"  -> Insert(xs, p, <<xs[p]>>)
      [] op = "swap" -> [xs EXCEPT ![p] = xs[p + 1], ![p + 1] = xs[p]]

\* a decay line names a model label that no ModelAlias statement defines (found by parse() after the syntax phase)
UndefinedAlias(out) ==
    \E i \in DOMAIN out : out[i].k = "Decay" /\ \E j \in DOMAIN out[i].lines :
        /\ out[i].lines[j].mk = "alias"
        /\ ~\E q \in DOMAIN out : out[q].k = "ModelAlias" /\ out[q].args[1] = out[i].lines[j].mn
\* (a ModelAlias standing for another label that is itself undefined)
DanglingAliasOfAlias(out) ==
    \E q \in DOMAIN out : out[q].k = "ModelAlias" /\ out[q].lines[1].mk = "alias"

NegEdit(op, p) ==
    /\ p <= Len(items) /\ (op = "swap" => p < Len(items))
    /\ (op = "swap" => items[p] # items[p + 1])
    /\ items' = ApplyNeg(op, items, p)
    /\ script' = Append(script, [kind |-> op, p |-> p])

NegNext ==
    /\ Len(script) < MaxEdits
    /\ \E op \in Ops, p \in 1..Len(items) : NegEdit(op, p)
    /\ Len(script') = MaxEdits =>
         Emit("neg", [base |-> Base, script |-> script', items |-> items', accepts |-> Accepts(items'),
                      denote |-> IF Accepts(items') THEN Denote(items') ELSE <<>>,
                      undefined |-> Accepts(items') /\ UndefinedAlias(Denote(items')),
                      aliasofalias |-> Accepts(items') /\ DanglingAliasOfAlias(Denote(items'))])

\* damage that is no damage: a doubled line end or semicolon (C02's own edits) keeps the meaning
NeutralDamageIsNeutral ==
    (Len(script) = 1 /\ script[1].kind = "dup" /\ Orig[script[1].p].k \in {"NL", "SEMI"})
        => (Accepts(items) /\ Denote(items) = Denote(Orig))
\* reachability companions (expected to be violated): the corpus has texts on both sides of the border,
\* and accepted texts that mean something else
NeverRefused == Accepts(items)
NeverAcceptedWithOtherMeaning == ~(script # <<>> /\ Accepts(items) /\ Denote(items) # Denote(Orig))
=============================================================================
