------------------------------ MODULE DecParse ------------------------------
(***************************************************************************)
(* Statement-level semantics of DecFileParser.parse() and of its queries.  *)
(*                                                                         *)
(* An abstract .dec file is a sequence of statements (records with a kind  *)
(* field k).  Names, words and model names are strings.  A numeric literal *)
(* is an opaque id ("n3"); the only arithmetic the parser performs on      *)
(* parameters, negation of a Define'd value written -name, is carried      *)
(* symbolically as "-" \o id.  The harness owns spellings and values.      *)
(*                                                                         *)
(*  Decay      [k, m, lines]   line = [bf, ds, ph, mk, mn, ps]             *)
(*                             mk = "model" | "alias" (a ModelAlias label) *)
(*                             ps = Seq([t |-> "num"|"word", v])           *)
(*  CDecay     [k, m]                                                      *)
(*  CopyDecay  [k, m, src]         m = NEW, src = OLD                      *)
(*  Alias      [k, m, src]                                                 *)
(*  ChargeConj [k, m, src]                                                 *)
(*  Define     [k, m, v]                                                   *)
(*  ModelAlias [k, m, mk, mn, ps]                                          *)
(*  (global statements of C07: see Globals below)                          *)
(*                                                                         *)
(* parse() is modelled phase by phase, one operator per critical section   *)
(* of the code, acting on `tables`, a sequence of [m, lines] *values*      *)
(* (value semantics = no shared state between tables):                     *)
(*   P_Find -> P_Dedup -> P_Alias -> P_Values -> P_Copy -> P_Conj          *)
(* DecGen.tla runs them as a state machine (variables phase, tables), one   *)
(* action per phase.  Independent, declarative readings of the property    *)
(* statements (FirstBlocks, ExpandDefs, WantConjTable ...) are checked     *)
(* against that machine by TLC in DecGen.tla.                              *)
(***************************************************************************)
EXTENDS Naturals, Sequences, FiniteSets, TLC, SequencesExt

----------------------------------------------------------------------------
(* generic helpers *)

RangeOf(s) == {s[i] : i \in DOMAIN s}
MapSeq(s, F(_)) == [i \in DOMAIN s |-> F(s[i])]
MaxOf(S) == CHOOSE x \in S : \A y \in S : y <= x
MinOf(S) == CHOOSE x \in S : \A y \in S : x <= y
IdxOf(src, kind, name) == {i \in DOMAIN src : src[i].k = kind /\ src[i].m = name}
HasDef(src, kind, name) == IdxOf(src, kind, name) # {}
LastDef(src, kind, name) == src[MaxOf(IdxOf(src, kind, name))]
OfKind(src, kind) == SelectSeq(src, LAMBDA s : s.k = kind)

\* keys of a Python dict built by inserting the statements of `kind` in file
\* order: order of first insertion, value of the last one
RECURSIVE DistinctRec(_, _)
DistinctRec(names, seen) ==
    IF names = <<>> THEN <<>>
    ELSE IF Head(names) \in seen THEN DistinctRec(Tail(names), seen)
    ELSE <<Head(names)>> \o DistinctRec(Tail(names), seen \cup {Head(names)})
DictKeys(src, kind) == DistinctRec(MapSeq(OfKind(src, kind), LAMBDA s : s.m), {})

Wrap(n) == "ChargeConj(" \o n \o ")"
IsNeg(w) == Len(w) > 1 /\ SubSeq(w, 1, 1) = "-"
Rest(w) == SubSeq(w, 2, Len(w))

----------------------------------------------------------------------------
(* tables *)

HasTable(ts, n) == \E i \in DOMAIN ts : ts[i].m = n
TableOf(ts, n) == ts[MinOf({i \in DOMAIN ts : ts[i].m = n})]
Mothers(ts) == MapSeq(ts, LAMBDA t : t.m)

\* phase 1: every Decay block, in file order (get_decays)
P_Find(src) == MapSeq(OfKind(src, "Decay"), LAMBDA d : [m |-> d.m, lines |-> d.lines])

\* phase 2: keep the first block of each mother (_check_parsed_decays)
RECURSIVE DedupRec(_, _)
DedupRec(ts, seen) ==
    IF ts = <<>> THEN <<>>
    ELSE IF Head(ts).m \in seen THEN DedupRec(Tail(ts), seen)
    ELSE <<Head(ts)>> \o DedupRec(Tail(ts), seen \cup {Head(ts).m})
P_Dedup(ts) == DedupRec(ts, {})

\* phase 3: ModelAlias labels -> model and raw parameters of the last definition
AliasUndefined(src, ts) ==
    \E i \in DOMAIN ts : \E j \in DOMAIN ts[i].lines :
        ts[i].lines[j].mk = "alias" /\ ~HasDef(src, "ModelAlias", ts[i].lines[j].mn)
ResolveAlias(src, ln) ==
    IF ln.mk = "alias" /\ HasDef(src, "ModelAlias", ln.mn)
    THEN LET a == LastDef(src, "ModelAlias", ln.mn)
         IN [ln EXCEPT !.mk = a.mk, !.mn = a.mn, !.ps = a.ps]
    ELSE ln
P_Alias(src, ts) ==
    MapSeq(ts, LAMBDA t : [t EXCEPT !.lines = MapSeq(t.lines, LAMBDA ln : ResolveAlias(src, ln))])

\* phase 4: Define'd words -> value of the last definition (negated for -word)
ResolveParam(src, p) ==
    IF p.t = "num" THEN p
    ELSE IF IsNeg(p.v) /\ HasDef(src, "Define", Rest(p.v))
         THEN [t |-> "num", v |-> "-" \o LastDef(src, "Define", Rest(p.v)).v]
    ELSE IF ~IsNeg(p.v) /\ HasDef(src, "Define", p.v)
         THEN [t |-> "num", v |-> LastDef(src, "Define", p.v).v]
    ELSE p
P_Values(src, ts) ==
    MapSeq(ts, LAMBDA t : [t EXCEPT !.lines =
        MapSeq(t.lines, LAMBDA ln : [ln EXCEPT !.ps = MapSeq(ln.ps, LAMBDA p : ResolveParam(src, p))])])

\* phase 5: CopyDecay NEW OLD - sources are the tables present before copying
CopyKeys(src) == DictKeys(src, "CopyDecay")
P_Copy(src, ts) ==
    LET keys == CopyKeys(src)
        has(i) == HasTable(ts, LastDef(src, "CopyDecay", keys[i]).src)
        hits == SelectSeq([i \in DOMAIN keys |-> i], has)
    IN ts \o [j \in DOMAIN hits |->
                [m |-> keys[hits[j]],
                 lines |-> TableOf(ts, LastDef(src, "CopyDecay", keys[hits[j]]).src).lines]]

\* charge conjugation of a name: ChargeConj statements read both ways (last
\* declaration of a key wins), otherwise the PDG relation `base`
\* (a function name -> name for the names with a known conjugate), otherwise
\* wrapped as unknown - never guessed
CCKeys(src) == DictKeys(src, "ChargeConj")
ConjOf(src, base, n) ==
    IF HasDef(src, "ChargeConj", n) THEN LastDef(src, "ChargeConj", n).src
    ELSE LET ks == CCKeys(src)
             rev == {i \in DOMAIN ks : LastDef(src, "ChargeConj", ks[i]).src = n}
         IN IF rev # {} THEN ks[MinOf(rev)]
            ELSE IF n \in DOMAIN base THEN base[n] ELSE Wrap(n)

ConjLine(src, base, ln) == [ln EXCEPT !.ds = MapSeq(ln.ds, LAMBDA d : ConjOf(src, base, d))]

\* phase 6: CDecay X - only when requested; Decay/CopyDecay tables take precedence;
\* nothing is added without a source table; X's table is the conjugated source
CDecayNames(src) == {s.m : s \in RangeOf(OfKind(src, "CDecay"))}
ConjTargets(src, base, ts) ==
    {x \in CDecayNames(src) : ~HasTable(ts, x) /\ HasTable(ts, ConjOf(src, base, x))}
ConjTableFor(src, base, ts, x) ==
    [m |-> x, lines |-> MapSeq(TableOf(ts, ConjOf(src, base, x)).lines,
                               LAMBDA ln : ConjLine(src, base, ln))]
\* the order in which the derived tables are appended is not part of any property:
\* P_Conj returns them in some fixed order, comparisons use AsTableMap
P_Conj(src, base, ts, incl) ==
    IF ~incl THEN ts
    ELSE LET xs == SetToSeq(ConjTargets(src, base, ts))
         IN ts \o [j \in DOMAIN xs |-> ConjTableFor(src, base, ts, xs[j])]

ParseFails(src) == AliasUndefined(src, P_Dedup(P_Find(src)))

\* the diagnostics of parse(): the names each warning lists (growth beyond the listed properties;
\* DecGen checks that nothing is dropped without one of them, DecWarnings.tla judges recorded warnings)
W_Redefined(src) ==
    LET ts == P_Find(src) IN {ts[i].m : i \in {i \in DOMAIN ts : \E j \in DOMAIN ts : j # i /\ ts[j].m = ts[i].m}}
TablesBeforeCopy(src) == P_Values(src, P_Alias(src, P_Dedup(P_Find(src))))
W_CopyMiss(src) ==
    {n \in RangeOf(CopyKeys(src)) : ~HasTable(TablesBeforeCopy(src), LastDef(src, "CopyDecay", n).src)}
TablesBeforeConj(src) == P_Copy(src, TablesBeforeCopy(src))
CDNames(src) == {s.m : s \in RangeOf(OfKind(src, "CDecay"))}
W_Both(src, incl) == IF ~incl THEN {} ELSE {x \in CDNames(src) : HasTable(TablesBeforeConj(src), x)}
W_ConjMiss(src, base, incl) ==
    IF ~incl THEN {}
    ELSE {x \in CDNames(src) \ W_Both(src, incl) : ~HasTable(TablesBeforeConj(src), ConjOf(src, base, x))}

Parsed(src, base, incl) ==
    P_Conj(src, base, P_Copy(src, P_Values(src, P_Alias(src, P_Dedup(P_Find(src))))), incl)

\* number of leading tables that stem from Decay blocks (their order is part of C01)
NDecayTables(src) == Len(P_Dedup(P_Find(src)))

AsTableMap(ts) == [n \in RangeOf(Mothers(ts)) |-> TableOf(ts, n).lines]
NoDuplicateMothers(ts) == \A i, j \in DOMAIN ts : ts[i].m = ts[j].m => i = j

----------------------------------------------------------------------------
(* declarative readings of the property statements *)

\* C01: one table per distinct mother, in order of first occurrence, first block kept
FirstIdx(src) ==
    {i \in DOMAIN src : src[i].k = "Decay" /\
        \A j \in 1..(i-1) : ~(src[j].k = "Decay" /\ src[j].m = src[i].m)}
FirstBlocks(src) ==
    LET idx == SetToSortSeq(FirstIdx(src), <)
    IN [j \in DOMAIN idx |-> [m |-> src[idx[j]].m, lines |-> src[idx[j]].lines]]

\* C05: textual expansion of every use of a Define'd name / ModelAlias name
ExpandLine(src, ln) ==
    LET l1 == ResolveAlias(src, ln)
    IN [l1 EXCEPT !.ps = MapSeq(l1.ps, LAMBDA p : ResolveParam(src, p))]
ExpandStmt(src, s) ==
    IF s.k = "Decay" THEN [s EXCEPT !.lines = MapSeq(s.lines, LAMBDA ln : ExpandLine(src, ln))]
    ELSE s
ExpandDefs(src) == MapSeq(src, LAMBDA s : ExpandStmt(src, s))
\* in an expanded file no line refers to a defined alias (an undefined one can only
\* survive in a discarded repeated block) and no word is a Define'd name
IsExpanded(src) ==
    \A i \in DOMAIN src : src[i].k = "Decay" =>
        \A j \in DOMAIN src[i].lines :
            /\ (src[i].lines[j].mk = "alias" => ~HasDef(src, "ModelAlias", src[i].lines[j].mn))
            /\ \A q \in DOMAIN src[i].lines[j].ps :
                  LET p == src[i].lines[j].ps[q] IN
                  p.t = "word" => ~HasDef(src, "Define", p.v) /\
                                  ~(IsNeg(p.v) /\ HasDef(src, "Define", Rest(p.v)))

\* C03, written from the statement: which names get a conjugate table, and what it is
WantConjTable(src, base, incl, x) ==
    /\ incl
    /\ x \in CDecayNames(src)
    /\ ~HasTable(P_Copy(src, P_Dedup(P_Find(src))), x)
    /\ HasTable(P_Copy(src, P_Dedup(P_Find(src))), ConjOf(src, base, x))

----------------------------------------------------------------------------
(* queries *)

\* C09: build_decay_chains(m, S).  A chain node is the list of entries of m;
\* a daughter is [n, dec, sub]: bare (dec = FALSE) when it has no table or is in S
RECURSIVE ChainEntries(_, _, _)
ChainEntries(ts, m, S) ==
    MapSeq(TableOf(ts, m).lines, LAMBDA ln :
        [bf |-> ln.bf, model |-> ln.mn, ps |-> ln.ps,
         fs |-> MapSeq(ln.ds, LAMBDA d :
                   IF d \in S \/ ~HasTable(ts, d)
                   THEN [n |-> d, dec |-> FALSE, sub |-> <<>>]
                   ELSE [n |-> d, dec |-> TRUE, sub |-> ChainEntries(ts, d, S)])])

\* acyclicity of the "has a daughter with a table" relation, needed for the recursion
Reach1(ts, S, n) ==
    IF HasTable(ts, n)
    THEN {d \in UNION {RangeOf(TableOf(ts, n).lines[j].ds) : j \in DOMAIN TableOf(ts, n).lines} :
            HasTable(ts, d) /\ d \notin S}
    ELSE {}
RECURSIVE ReachN(_, _, _, _)
ReachN(ts, S, front, k) ==
    IF k = 0 \/ front = {} THEN front
    ELSE front \cup ReachN(ts, S, UNION {Reach1(ts, S, n) : n \in front}, k - 1)
Acyclic(ts, S) ==
    \A i \in DOMAIN ts : ts[i].m \notin ReachN(ts, S, Reach1(ts, S, ts[i].m), Len(ts))

\* C10: expand_decay_modes(m).  One tree per choice of one line for m and,
\* recursively and independently at every position, for every daughter that has
\* decay lines; a daughter without lines (no table, or an empty Decay block) is
\* stable.  Every decaying alias is shown under the particle it aliases.
Shown(src, n) == IF HasDef(src, "Alias", n) THEN LastDef(src, "Alias", n).src ELSE n
Decays(ts, n) == HasTable(ts, n) /\ TableOf(ts, n).lines # <<>>

\* all ways of picking one element from each set of a sequence of sets
RECURSIVE Product(_)
Product(sets) ==
    IF sets = <<>> THEN {<<>>}
    ELSE {<<h>> \o t : h \in Head(sets), t \in Product(Tail(sets))}

\* a tree is [m, leaf, kids]; a path *choice* also records which line was taken
\* at each node (li) so that distinct choices are distinct values
RECURSIVE PathChoices(_, _, _)
PathChoices(src, ts, m) ==
    UNION { { [m |-> Shown(src, m), leaf |-> FALSE, li |-> j, kids |-> ks] :
                ks \in Product(MapSeq(TableOf(ts, m).lines[j].ds, LAMBDA d :
                          IF Decays(ts, d) THEN PathChoices(src, ts, d)
                          ELSE {[m |-> d, leaf |-> TRUE, li |-> 0, kids |-> <<>>]})) }
            : j \in DOMAIN TableOf(ts, m).lines }

RECURSIVE NPaths(_, _)
NPaths(ts, m) ==
    LET lines == TableOf(ts, m).lines
        RECURSIVE prod(_, _)
        prod(ds, i) == IF i > Len(ds) THEN 1
                       ELSE (IF Decays(ts, ds[i]) THEN NPaths(ts, ds[i]) ELSE 1) * prod(ds, i + 1)
        RECURSIVE sum(_)
        sum(j) == IF j > Len(lines) THEN 0 ELSE prod(lines[j].ds, 1) + sum(j + 1)
    IN sum(1)

\* order-insensitive canonical form of a tree: children as a bag
BagOfSeq(s) == [x \in RangeOf(s) |-> Cardinality({i \in DOMAIN s : s[i] = x})]
RECURSIVE CanonTree(_)
CanonTree(t) ==
    [m |-> t.m, leaf |-> t.leaf, kids |-> BagOfSeq(MapSeq(t.kids, LAMBDA c : CanonTree(c)))]
CanonBag(trees) ==   \* trees: a sequence; result: bag of canonical trees
    BagOfSeq(MapSeq(trees, LAMBDA t : CanonTree(t)))
BagSize(b) == LET RECURSIVE S(_)
                  S(D) == IF D = {} THEN 0 ELSE LET x == CHOOSE y \in D : TRUE IN b[x] + S(D \ {x})
              IN S(DOMAIN b)
=============================================================================
