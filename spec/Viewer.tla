------------------------------- MODULE Viewer -------------------------------
(***************************************************************************)
(* DecayChainViewer (C15): the graph emitted for a chain dictionary, and   *)
(* the process-wide counter that names its nodes.                          *)
(*                                                                         *)
(* A chain dictionary is [m, entries]; entries = Seq([bf, fs]); fs =       *)
(* Seq([n, dec, sub]) (the shape of ChainEntries / DictEntries).           *)
(* Expected graph: a root for m and, for each entry at every depth, one    *)
(* node whose cells are that line's daughters in order, reached by one     *)
(* edge labelled with the line's bf from the root or from the slot of the  *)
(* decaying daughter in its parent.  As a value: a bag of                  *)
(*   [label, cells, kids]  with kids[i] the bag of nodes hanging off slot i*)
(*                                                                         *)
(* Node identifiers: Mode = "gen" model-checks the counter discipline -    *)
(* Variant "process_wide" (ids never repeat in a session) against "reset"  *)
(* (numbering restarts per graph) - Mode = "trace" validates sessions of   *)
(* several viewers recorded from the real code.                            *)
(***************************************************************************)
EXTENDS Naturals, Sequences, FiniteSets, TLC, VerifIO, Json, IOUtils

CONSTANTS Mode, Variant, MaxGraphs

RangeOf(s) == {s[i] : i \in DOMAIN s}
MapSeq(s, F(_)) == [i \in DOMAIN s |-> F(s[i])]
BagOfSeq(s) == [x \in RangeOf(s) |-> Cardinality({i \in DOMAIN s : s[i] = x})]
NoBag == [x \in {} |-> 0]

RECURSIVE GraphOf(_)
GraphOf(entries) ==
    BagOfSeq(MapSeq(entries, LAMBDA e :
        [label |-> e.bf,
         cells |-> MapSeq(e.fs, LAMBDA k : k.n),
         kids  |-> MapSeq(e.fs, LAMBDA k : IF k.dec THEN GraphOf(k.sub) ELSE NoBag)]))

RECURSIVE ObsGraph(_)
ObsGraph(nodes) ==
    BagOfSeq(MapSeq(nodes, LAMBDA nd :
        [label |-> nd.label, cells |-> nd.cells, kids |-> MapSeq(nd.kids, LAMBDA slot : ObsGraph(slot))]))

RECURSIVE NLines(_)
NLines(entries) ==
    LET RECURSIVE sumk(_, _)
        sumk(fs, i) == IF i > Len(fs) THEN 0 ELSE (IF fs[i].dec THEN NLines(fs[i].sub) ELSE 0) + sumk(fs, i + 1)
        RECURSIVE sume(_)
        sume(j) == IF j > Len(entries) THEN 0 ELSE 1 + sumk(entries[j].fs, 1) + sume(j + 1)
    IN sume(1)

----------------------------------------------------------------------------
(* the counter *)
VARIABLES counter, used, made, tid, l
vars == <<counter, used, made, tid, l>>

\* a graph with k lines takes k identifiers
View(k) ==
    /\ made < MaxGraphs
    /\ LET start == IF Variant = "reset" THEN 0 ELSE counter
           ids == start..(start + k - 1)
       IN /\ counter' = start + k
          /\ used' = Append(used, ids)
    /\ made' = made + 1
    /\ UNCHANGED <<tid, l>>

\* identifiers are unique across all graphs made in the session
Fresh == \A i, j \in DOMAIN used : i # j => used[i] \cap used[j] = {}

----------------------------------------------------------------------------
(* judging: a session = sequence of viewer observations
   [chain = [m, entries], obs = [root_cells, nodes (nested, from the DOT source), ids (numbers of decN),
                                nnodes, nedges, stray (nodes/edges not hanging off the root), dot_ok]] *)
Sessions == IF Mode = "trace" THEN JsonDeserialize(IOEnv.TRACE_FILE) ELSE <<>>

JudgeView(t, k, before) ==
    LET e == k.chain.entries o == k.obs IN AllOf(<<
      ChkD(t, "C15:one-root-node-for-the-mother", o.root_cells = <<k.chain.m>>, [obs |-> o.root_cells]),
      ChkD(t, "C15:one-node-and-one-edge-per-decay-line", o.nnodes = 1 + NLines(e) /\ o.nedges = NLines(e),
           [lines |-> NLines(e), nodes |-> o.nnodes, edges |-> o.nedges]),
      Chk(t, "C15:no-other-nodes-or-edges", o.stray = 0),
      ChkD(t, "C15:node-lists-daughters-in-order-edge-carries-the-lines-bf-from-the-right-slot",
           ObsGraph(o.nodes) = GraphOf(e), [exp |-> GraphOf(e), obs |-> ObsGraph(o.nodes)]),
      ChkD(t, "C15:identifiers-unique-within-the-graph", Cardinality(RangeOf(o.ids)) = Len(o.ids), [ids |-> o.ids]),
      ChkD(t, "C15:identifiers-unique-across-graphs-of-the-session", RangeOf(o.ids) \cap before = {},
           [reused |-> RangeOf(o.ids) \cap before]),
      Chk(t, "C15:output-accepted-by-graphviz", o.dot_ok) >>)

Init == counter = 0 /\ used = <<>> /\ made = 0 /\ tid = 0 /\ l = 1

TraceNext ==
    \/ /\ tid = 0 /\ tid' \in 1..Len(Sessions) /\ UNCHANGED <<counter, used, made, l>>
    \/ /\ tid > 0 /\ l <= Len(Sessions[tid])
       /\ LET k == Sessions[tid][l]
              before == UNION {used[i] : i \in DOMAIN used}
              ok == JudgeView(tid, k, before)
          IN /\ used' = Append(used, RangeOf(k.obs.ids))
             /\ IF ok THEN l' = l + 1 /\ (IF l + 1 <= Len(Sessions[tid]) THEN TRUE ELSE Verdict(tid, TRUE))
                ELSE l' = Len(Sessions[tid]) + 2 /\ Verdict(tid, FALSE)
       /\ UNCHANGED <<counter, made, tid>>

Next == IF Mode = "trace" THEN TraceNext ELSE \E k \in 1..3 : View(k)
=============================================================================
