-------------------------------- MODULE Conj --------------------------------
(***************************************************************************)
(* Charge conjugation at the three layers of decaylanguage (C04):          *)
(*   the name utility charge_conjugate_name (EvtGen and PDG naming),       *)
(*   DaughtersDict / DecayMode .charge_conjugate(),                        *)
(*   the CDecay route of the .dec parser (shares ConjOf with DecParse).    *)
(*                                                                         *)
(* The rule is stated on *ids*: the conjugate of a name is the name whose  *)
(* PDG id is the negated one, the same name for self-conjugate particles,  *)
(* and names without a known conjugate are wrapped, never altered.  The    *)
(* data (env CONJ_DATA, JSON) is exported by the harness from the          *)
(* installed particle package:                                             *)
(*   evt:     EvtGen name -> [id (decimal string; TLC integers are 32 bit),*)
(*                            sc ("T" | "F" | "na" = id without DB row)]   *)
(*   pdg2evt: PDG name -> EvtGen name      evt2pdg: EvtGen name -> PDG name*)
(* TLC checks the theorems of the property on the whole tables (Theorems)  *)
(* and judges call traces recorded from the real code.                     *)
(***************************************************************************)
EXTENDS Naturals, Sequences, FiniteSets, TLC, VerifIO, Json, IOUtils

Data == JsonDeserialize(IOEnv.CONJ_DATA)
Evt == Data.evt
P2E == Data.pdg2evt
E2P == Data.evt2pdg

RangeOf(s) == {s[i] : i \in DOMAIN s}
Wrap(n) == "ChargeConj(" \o n \o ")"
IsWrapped(n) == Len(n) >= 12 /\ SubSeq(n, 1, 11) = "ChargeConj("
NegId(i) == IF SubSeq(i, 1, 1) = "-" THEN SubSeq(i, 2, Len(i)) ELSE "-" \o i

\* name with a given id, if any
ById == [i \in {Evt[n].id : n \in DOMAIN Evt} |-> CHOOSE n \in DOMAIN Evt : Evt[n].id = i]

ConjE(n) ==
    IF n \notin DOMAIN Evt THEN Wrap(n)
    ELSE IF Evt[n].sc = "T" THEN n
    ELSE IF NegId(Evt[n].id) \in DOMAIN ById THEN ById[NegId(Evt[n].id)]
    ELSE Wrap(n)

ConjP(pn) ==
    IF pn \notin DOMAIN P2E THEN Wrap(pn)
    ELSE LET cc == ConjE(P2E[pn])
         IN IF cc \in DOMAIN E2P THEN E2P[cc] ELSE Wrap(pn)

Conj(n, pdg) == IF pdg THEN ConjP(n) ELSE ConjE(n)
Known(n) == n \in DOMAIN Evt /\ ~IsWrapped(ConjE(n))
KnownP(pn) == pn \in DOMAIN P2E /\ ~IsWrapped(ConjP(pn))

\* bags as sequences of <<name, count>> pairs (JSON)
BagP(ps) == [x \in {ps[i][1] : i \in DOMAIN ps} |-> ps[CHOOSE i \in DOMAIN ps : ps[i][1] = x][2]]
PairsDistinct(ps) == \A i, j \in DOMAIN ps : ps[i][1] = ps[j][1] => i = j
ConjBag(b, pdg) ==
    [y \in {Conj(x, pdg) : x \in DOMAIN b} |->
        LET pre == {x \in DOMAIN b : Conj(x, pdg) = y}
            RECURSIVE S(_)
            S(D) == IF D = {} THEN 0 ELSE LET x == CHOOSE z \in D : TRUE IN b[x] + S(D \ {x})
        IN S(pre)]

----------------------------------------------------------------------------
(* theorems of the property, on the installed tables *)
IdsUnique == \A a, b \in DOMAIN Evt : Evt[a].id = Evt[b].id => a = b
IdNegation ==
    \A n \in DOMAIN Evt : Known(n) =>
        \/ (Evt[n].sc = "T" /\ ConjE(n) = n)
        \/ (ConjE(n) \in DOMAIN Evt /\ Evt[ConjE(n)].id = NegId(Evt[n].id))
Involution  == \A n \in DOMAIN Evt : Known(n) => ConjE(ConjE(n)) = n
Closure     == \A n \in DOMAIN Evt : Known(n) => ConjE(n) \in DOMAIN Evt
InvolutionP == \A pn \in DOMAIN P2E : KnownP(pn) => ConjP(ConjP(pn)) = pn
UnknownNeverAltered ==
    /\ \A n \in DOMAIN Evt : ~Known(n) => ConjE(n) = Wrap(n)
    /\ \A pn \in DOMAIN P2E : ~KnownP(pn) => ConjP(pn) = Wrap(pn)
\* the PDG route agrees with the EvtGen route through the name maps
LayersAgree ==
    \A pn \in DOMAIN P2E : KnownP(pn) => P2E[ConjP(pn)] = ConjE(P2E[pn]) \/ E2P[ConjE(P2E[pn])] = ConjP(pn)
Theorems == IdsUnique /\ IdNegation /\ Involution /\ Closure /\ InvolutionP /\ UnknownNeverAltered /\ LayersAgree

----------------------------------------------------------------------------
(* judging recorded traces.  A case is one of                                 *)
(*  [kind "calls", calls = Seq([n, pdg, r, r2])]   r = result, r2 = result of  *)
(*                         conjugating r again (same flag)                     *)
(*  [kind "fs",   pdg, fs, obs = [fs, len]]                                    *)
(*  [kind "mode", pdg, fs, obs = [fs, bf_same, meta_same]]                     *)
(*  [kind "table", fs, obs = [table, dd]]   CDecay route vs class route        *)
Cases == JsonDeserialize(IOEnv.TRACE_FILE)
VARIABLES tid, done

JudgeCalls(t, k) ==
    \A i \in DOMAIN k.calls :
        LET c == k.calls[i] want == Conj(c.n, c.pdg) IN AllOf(<<
          ChkD(t, "C04:conjugate-is-the-name-with-the-negated-id-or-wrapped", c.r = want,
               [n |-> c.n, pdg |-> c.pdg, exp |-> want, obs |-> c.r, call |-> i]),
          ChkD(t, "C04:conjugating-twice-returns-the-original",
               IsWrapped(want) \/ c.r2 = c.n, [n |-> c.n, pdg |-> c.pdg, twice |-> c.r2, call |-> i]) >>)

JudgeFS(t, k) ==
    LET b == BagP(k.fs) want == ConjBag(b, k.pdg) IN AllOf(<<
        ChkD(t, "C04:final-state-conjugates-each-particle-with-its-multiplicity",
             PairsDistinct(k.obs.fs) /\ BagP(k.obs.fs) = want, [exp |-> want, obs |-> k.obs.fs]),
        ChkD(t, "C04:number-of-particles-preserved",
             k.obs.len = (LET RECURSIVE S(_)
                              S(D) == IF D = {} THEN 0 ELSE LET x == CHOOSE z \in D : TRUE IN b[x] + S(D \ {x})
                          IN S(DOMAIN b)), [obs |-> k.obs.len]) >>)

JudgeMode(t, k) ==
    LET b == BagP(k.fs) want == ConjBag(b, k.pdg) IN AllOf(<<
        ChkD(t, "C04:mode-conjugates-each-particle-with-its-multiplicity",
             PairsDistinct(k.obs.fs) /\ BagP(k.obs.fs) = want, [exp |-> want, obs |-> k.obs.fs]),
        Chk(t, "C04:mode-conjugation-preserves-branching-fraction", k.obs.bf_same),
        Chk(t, "C04:mode-conjugation-preserves-all-metadata", k.obs.meta_same) >>)

JudgeTable(t, k) ==
    LET b == BagP(k.fs) want == ConjBag(b, FALSE) IN AllOf(<<
        ChkD(t, "C04:cdecay-table-is-the-conjugate-final-state",
             PairsDistinct(k.obs.table) /\ BagP(k.obs.table) = want, [exp |-> want, obs |-> k.obs.table]),
        ChkD(t, "C04:class-and-cdecay-routes-agree", k.obs.table = k.obs.dd, [table |-> k.obs.table, dd |-> k.obs.dd]) >>)

\* the parse-tree layer (the visitor CDecay uses), applied once and twice to one tree
JudgeTree(t, k) ==
    LET b == BagP(k.fs) want == ConjBag(b, FALSE) wm == Conj(k.mother, FALSE) IN AllOf(<<
        ChkD(t, "C04:tree-visitor-conjugates-mother-and-every-daughter",
             PairsDistinct(k.obs.once) /\ BagP(k.obs.once) = want /\ k.obs.mother_once = wm,
             [exp |-> want, obs |-> k.obs.once, mother |-> k.obs.mother_once]),
        ChkD(t, "C04:tree-visitor-applied-twice-returns-the-original",
             (IsWrapped(wm) \/ \E x \in DOMAIN want : IsWrapped(x))
                 \/ (PairsDistinct(k.obs.twice) /\ BagP(k.obs.twice) = b /\ k.obs.mother_twice = k.mother),
             [exp |-> b, obs |-> k.obs.twice, mother |-> k.obs.mother_twice]) >>)

Judge(t, k) ==
    CASE k.kind = "calls" -> JudgeCalls(t, k)
      [] k.kind = "tree" -> JudgeTree(t, k)
      [] k.kind = "fs" -> JudgeFS(t, k)
      [] k.kind = "mode" -> JudgeMode(t, k)
      [] k.kind = "table" -> JudgeTable(t, k)
      [] OTHER -> Chk(t, "MACHINERY:unknown-kind", FALSE)

Init == tid = 0 /\ done = FALSE
Next ==
    \/ /\ tid = 0 /\ tid' \in 1..Len(Cases) /\ done' = FALSE
    \/ /\ tid > 0 /\ ~done /\ Verdict(tid, Judge(tid, Cases[tid])) /\ done' = TRUE /\ tid' = tid
TheoremsHold == Theorems
=============================================================================
