----------------------------- MODULE DecSyntax -----------------------------
(***************************************************************************)
(* Lexical-item model of a .dec text and of the line structure of the      *)
(* grammar (decfile.lark), used for C02: which layout edits are promised   *)
(* to be neutral, and a proof by model checking that they are.             *)
(*                                                                         *)
(* A text is a sequence of items [k, v]:                                   *)
(*   KW (statement keyword), LABEL, NUM, MODEL (a model name in a position *)
(*   where the MODEL_NAME terminal is tried), PHOTOS, SEMI, COMMA,         *)
(*   NL (v = "LF" | "CRLF"), WS, COMMENT (text up to, not including, the   *)
(*   line end)                                                             *)
(* Step is the deterministic automaton of the grammar at this level: WS is *)
(* ignored everywhere; NL and COMMENT are skipped where _NEWLINE may       *)
(* repeat, required where a line must end, and an error elsewhere; the     *)
(* last LABEL before ';' is the model label, the others are daughters.     *)
(* Denote(items) is the statement sequence read, Accepts(items) whether    *)
(* the text is in the language.                                            *)
(*                                                                         *)
(* Edits (the ones C02 lists) are insertions before position p, allowed by *)
(* the table Neutral(kind, items, p):                                      *)
(*   ws        extra blanks / tabs                - anywhere between items *)
(*   nl        a line end (LF or CRLF)            - where the previous item*)
(*             is NL or COMMENT..NL (a blank line), or inside an option    *)
(*             list of a MODEL                                             *)
(*   cline     a comment line (COMMENT NL)        - same places as nl      *)
(*   trail     a trailing comment before an NL    - before any NL          *)
(*   comma     a comma                            - inside an option list  *)
(*   semi      a repeated semicolon               - directly after a SEMI  *)
(*   crlf      LF -> CRLF of the NL at p          - any NL                 *)
(* TLC checks Sound (every sequence of allowed edits leaves Denote         *)
(* unchanged and the text accepted) and Tight (a line end inserted where   *)
(* the table says no is rejected or changes the meaning) on the base files *)
(* below, and emits edit scripts for the harness.                          *)
(***************************************************************************)
EXTENDS Naturals, Sequences, FiniteSets, TLC, VerifIO

CONSTANTS Base,       \* which base file (1..NBase)
          MaxEdits,   \* length of an edit script
          EmitMode    \* "none" | "scripts" (every script of length MaxEdits) | "table" (neutrality table of the base file)

I(k, v) == [k |-> k, v |-> v]
NLf == I("NL", "LF")
KW(x) == I("KW", x)
L(x) == I("LABEL", x)
N(x) == I("NUM", x)
M(x) == I("MODEL", x)
SEMI == I("SEMI", ";")
COMMA == I("COMMA", ",")
PHOTOS == I("PHOTOS", "PHOTOS")
WSi == I("WS", " ")
CMT == I("COMMENT", "# c")

Arity == [Alias |-> <<"LABEL", "LABEL">>, ChargeConj |-> <<"LABEL", "LABEL">>, CopyDecay |-> <<"LABEL", "LABEL">>,
          Define |-> <<"LABEL", "NUM">>, CDecay |-> <<"LABEL">>, yesPhotos |-> <<>>, noPhotos |-> <<>>]

----------------------------------------------------------------------------
(* the automaton *)
NoLine == [bf |-> "-", ds |-> <<>>, ph |-> FALSE, mk |-> "-", mn |-> "-", ps |-> <<>>]
Cfg0 == [st |-> "top", ctx |-> "top", out |-> <<>>, cur |-> [k |-> "-", args |-> <<>>, lines |-> <<>>],
         line |-> NoLine, pend |-> "-", rem |-> <<>>, ok |-> TRUE,
         pn |-> FALSE]      \* the previous token was lexed as a number

Fail(c) == [c EXCEPT !.ok = FALSE]
FlushPend(c) == IF c.pend = "-" THEN c ELSE [c EXCEPT !.line.ds = Append(@, c.pend), !.pend = "-"]
EndLine(c) ==      \* a decay line / model alias body is complete
    IF c.ctx = "decay" THEN [c EXCEPT !.cur.lines = Append(@, c.line), !.line = NoLine, !.st = "indecay"]
    ELSE [c EXCEPT !.out = Append(@, [c.cur EXCEPT !.lines = <<c.line>>]), !.line = NoLine, !.st = "top"]

\* The lexer is contextual: in a position where a LABEL may stand, any word that is not one of the other terminals
\* acceptable *there* is read as a LABEL - a keyword, a number, a model name, the word PHOTOS (found by the
\* negative corpus of DecSyntaxNeg.tla).  Such a label is written kind:value in Denote.
Wordy(it) == it.k \in {"KW", "LABEL", "NUM", "MODEL", "PHOTOS"}
LabelText(it) == IF it.k = "LABEL" THEN it.v ELSE it.k \o ":" \o it.v

StepCore(c, it) ==
    IF ~c.ok THEN c
    ELSE IF it.k = "WS" THEN c
    ELSE LET nlish == it.k \in {"NL", "COMMENT"} IN
    CASE c.st = "top" ->
           IF nlish THEN c
           ELSE IF it.k = "KW" /\ it.v \in DOMAIN Arity
                THEN [c EXCEPT !.cur = [k |-> it.v, args |-> <<>>, lines |-> <<>>], !.rem = Arity[it.v],
                               !.st = IF Arity[it.v] = <<>> THEN "eol" ELSE "args"]
           ELSE IF it.k = "KW" /\ it.v = "Decay"
                THEN [c EXCEPT !.cur = [k |-> "Decay", args |-> <<>>, lines |-> <<>>], !.rem = <<"LABEL">>, !.st = "args"]
           ELSE IF it.k = "KW" /\ it.v = "ModelAlias"
                THEN [c EXCEPT !.cur = [k |-> "ModelAlias", args |-> <<>>, lines |-> <<>>], !.rem = <<"LABEL">>, !.st = "args"]
           ELSE IF it.k = "KW" /\ it.v = "End" THEN [c EXCEPT !.st = "endeos"]
           ELSE Fail(c)
      [] c.st = "args" ->
           IF it.k = Head(c.rem) \/ (Head(c.rem) = "LABEL" /\ Wordy(it))
           THEN LET c2 == [c EXCEPT !.cur.args = Append(@, IF Head(c.rem) = "LABEL" THEN LabelText(it) ELSE it.v), !.rem = Tail(@)] IN
                IF c2.rem # <<>> THEN c2
                ELSE IF c.cur.k = "ModelAlias" THEN [c2 EXCEPT !.st = "mamodel", !.ctx = "top"]
                ELSE [c2 EXCEPT !.st = "eol"]
           ELSE Fail(c)
      [] c.st = "eol" ->          \* the line must end here
           IF nlish THEN
              IF c.cur.k = "Decay" /\ c.ctx = "top" THEN [c EXCEPT !.st = "indecay", !.ctx = "decay"]
              ELSE [c EXCEPT !.out = Append(@, c.cur), !.st = "top", !.ctx = "top"]
           ELSE Fail(c)
      [] c.st = "indecay" ->
           IF nlish THEN c
           ELSE IF it.k = "NUM" THEN [c EXCEPT !.line = [NoLine EXCEPT !.bf = it.v], !.st = "dlds", !.pend = "-"]
           ELSE IF it.k = "KW" /\ it.v = "Enddecay" THEN [c EXCEPT !.st = "eol", !.ctx = "closing"]
           ELSE Fail(c)
      [] c.st = "dlds" ->
           \* (directly behind a number the lexer is in the state reached by shifting a number, whatever the rule
           \*  being parsed: a numeric word is a number, a model name a MODEL_NAME, PHOTOS the keyword)
           IF it.k \in {"LABEL", "KW"} \/ (it.k = "NUM" /\ ~c.pn)
           THEN [FlushPend(c) EXCEPT !.pend = LabelText(it)]
           ELSE IF it.k = "PHOTOS" THEN [FlushPend(c) EXCEPT !.line.ph = TRUE, !.st = "dlmodel"]
           ELSE IF it.k = "MODEL" THEN [FlushPend(c) EXCEPT !.line.mk = "model", !.line.mn = it.v, !.st = "opts"]
           ELSE IF it.k = "SEMI" /\ c.pend # "-"
                THEN [c EXCEPT !.line.mk = "alias", !.line.mn = c.pend, !.pend = "-", !.st = "semis"]
           ELSE Fail(c)
      [] c.st \in {"dlmodel", "mamodel"} ->
           IF it.k = "MODEL" THEN [c EXCEPT !.line.mk = "model", !.line.mn = it.v, !.st = "opts"]
           ELSE IF Wordy(it) THEN [c EXCEPT !.line.mk = "alias", !.line.mn = LabelText(it), !.st = "needsc"]
           ELSE Fail(c)
      [] c.st = "needsc" -> IF it.k = "SEMI" THEN [c EXCEPT !.st = "semis"] ELSE Fail(c)
      [] c.st = "opts" ->
           IF it.k \in {"MODEL", "PHOTOS"} /\ c.pn THEN Fail(c)
           ELSE IF Wordy(it) THEN [c EXCEPT !.line.ps = Append(@, it)]
           ELSE IF nlish \/ it.k = "COMMA" THEN c
           ELSE IF it.k = "SEMI" THEN [c EXCEPT !.st = "semis"]
           ELSE Fail(c)
      [] c.st = "semis" ->
           IF it.k = "SEMI" THEN c
           ELSE IF nlish THEN EndLine(c)
           ELSE Fail(c)
      [] c.st = "endeos" -> IF nlish THEN [c EXCEPT !.st = "ended"] ELSE Fail(c)
      [] c.st = "ended" -> IF nlish THEN c ELSE Fail(c)
      [] OTHER -> Fail(c)

Step(c, it) ==
    LET r == StepCore(c, it) IN
    IF it.k = "WS" THEN r
    ELSE [r EXCEPT !.pn = (it.k = "NUM" /\ (c.st \in {"indecay", "opts"} \/ (c.st = "args" /\ Head(c.rem) = "NUM")))]

RECURSIVE Run(_, _, _)
\* (the test on n.st forces the step to be evaluated before the recursion goes on: TLC passes arguments lazily)
Run(c, xs, i) == IF i > Len(xs) THEN c
                 ELSE LET n == Step(c, xs[i]) IN IF n.st = "?" THEN n ELSE Run(n, xs, i + 1)
Final(xs) == Run(Cfg0, xs, 1)
Accepts(xs) == Final(xs).ok /\ Final(xs).st \in {"top", "ended"}
Denote(xs) == Final(xs).out

\* the automaton state in front of position p (1..Len+1)
StateAt(xs, p) == Run(Cfg0, SubSeq(xs, 1, p - 1), 1).st

----------------------------------------------------------------------------
(* base files *)
File1 == << KW("Alias"), L("a"), L("b"), NLf,
            KW("Define"), L("w"), N("n1"), NLf,
            KW("Decay"), L("A"), NLf,
            N("n1"), L("x"), L("y"), M("M1"), N("n2"), L("w"), SEMI, NLf,
            N("n2"), L("x"), PHOTOS, L("MA"), SEMI, NLf,
            KW("Enddecay"), NLf,
            KW("ModelAlias"), L("MA"), M("M2"), N("n1"), SEMI, NLf,
            KW("CDecay"), L("Ab"), NLf >>
File2 == << KW("yesPhotos"), NLf,
            KW("Decay"), L("A"), NLf,
            KW("Enddecay"), NLf,
            KW("Decay"), L("B"), NLf,
            N("n1"), M("M1"), SEMI, NLf,
            N("n2"), L("x"), L("MB"), SEMI, SEMI, NLf,
            KW("Enddecay"), NLf,
            KW("ModelAlias"), L("MB"), M("M2"), SEMI, NLf,
            KW("End"), NLf >>
Files == <<File1, File2>>
Orig == Files[Base]

----------------------------------------------------------------------------
(* edits *)
Insert(xs, p, ins) == SubSeq(xs, 1, p - 1) \o ins \o SubSeq(xs, p, Len(xs))

\* blanks do not count: look at the nearest item that is not WS
RECURSIVE PrevSig(_, _)
PrevSig(xs, p) == IF p = 1 THEN "START" ELSE IF xs[p - 1].k = "WS" THEN PrevSig(xs, p - 1) ELSE xs[p - 1].k
RECURSIVE NextSig(_, _)
NextSig(xs, p) == IF p > Len(xs) THEN "END" ELSE IF xs[p].k = "WS" THEN NextSig(xs, p + 1) ELSE xs[p].k
AfterLineEnd(xs, p) == PrevSig(xs, p) \in {"START", "NL"}
BeforeLineEnd(xs, p) == NextSig(xs, p) \in {"NL", "COMMENT"}
Neutral(kind, xs, p) ==          \* p in 1..Len(xs)+1 : insertion in front of item p
    LET st == StateAt(xs, p) IN
    CASE kind = "ws"    -> TRUE
      [] kind \in {"nl", "crlfnl", "cline"} -> IF AfterLineEnd(xs, p) THEN TRUE ELSE IF BeforeLineEnd(xs, p) THEN TRUE ELSE st = "opts"
      [] kind = "trail" -> NextSig(xs, p) = "NL"
      [] kind = "comma" -> st = "opts"
      [] kind = "semi"  -> PrevSig(xs, p) = "SEMI"
      [] kind = "crlf"  -> IF p <= Len(xs) THEN xs[p].k = "NL" ELSE FALSE
      [] OTHER -> FALSE

Apply(kind, xs, p) ==
    CASE kind = "ws"     -> Insert(xs, p, <<WSi>>)
      [] kind = "nl"     -> Insert(xs, p, <<NLf>>)
      [] kind = "crlfnl" -> Insert(xs, p, <<I("NL", "CRLF")>>)
      [] kind = "cline"  -> Insert(xs, p, <<CMT, NLf>>)
      [] kind = "trail"  -> Insert(xs, p, <<CMT>>)
      [] kind = "comma"  -> Insert(xs, p, <<COMMA>>)
      [] kind = "semi"   -> Insert(xs, p, <<SEMI>>)
      [] kind = "crlf"   -> [xs EXCEPT ![p] = I("NL", "CRLF")]

Kinds == {"ws", "nl", "crlfnl", "cline", "trail", "comma", "semi", "crlf"}

VARIABLES items, script
vars == <<items, script>>

Init == items = Orig /\ script = <<>>

Edit(kind, p) ==
    /\ Neutral(kind, items, p) = TRUE     \* (a state predicate: "= TRUE" keeps TLC from splitting it as an action)
    /\ items' = Apply(kind, items, p)
    /\ script' = Append(script, [kind |-> kind, p |-> p])

Next ==
    /\ Len(script) < MaxEdits
    /\ \E kind \in Kinds, p \in 1..(Len(items) + 1) : Edit(kind, p)
    /\ (EmitMode = "scripts" /\ Len(script') = MaxEdits) => Emit("script", [base |-> Base, script |-> script'])

\* every sequence of allowed edits leaves the text in the language with the same meaning
Sound == Accepts(items) /\ Denote(items) = Denote(Orig)
\* the table is not vacuously small: a line end inserted where it is not allowed breaks the text
Tight ==
    \A p \in 1..(Len(items) + 1) :
        ~Neutral("nl", items, p) =>
            LET bad == Apply("nl", items, p) IN ~Accepts(bad) \/ Denote(bad) # Denote(Orig)
\* the neutrality table of the current text, for the harness' own position classifier
TableOf(its) == [p \in 1..(Len(its) + 1) |-> {kind \in Kinds : Neutral(kind, its, p)}]
EmitTable == EmitMode = "table" => Emit("table", [base |-> Base, items |-> Orig, table |-> TableOf(Orig)])
\* reachability companion (expected to be violated): wrapped option lists are exercised
NeverWrapped == ~ \E p \in 2..Len(items) : items[p].k = "NL" /\ StateAt(items, p) = "opts"
=============================================================================
