------------------------------ MODULE DecQuery ------------------------------
(***************************************************************************)
(* Judges for the queries that unfold decay tables (C09 chains, C10 path   *)
(* expansion).  Both are stated relative to the tables *the parser itself  *)
(* reports* (c.obs.tables), so that a defect in reading the file (C01) is  *)
(* not blamed on the unfolding.                                            *)
(***************************************************************************)
EXTENDS DecParse, VerifIO

\* observed tables -> the [m, lines] shape of DecParse (fields bf, ds, mn, ps are shared)
TsOfObs(obs) == MapSeq(obs.tables, LAMBDA t : [m |-> t.m, lines |-> t.lines])

(* C09: c.m, c.S (sequence of names), c.res = [notfound, entries] *)
JudgeC09(t, c) ==
    LET ts == TsOfObs(c.obs)
        S == RangeOf(c.S)
    IN IF ~HasTable(ts, c.m)
       THEN Chk(t, "C09:particle-without-table-raises-not-found", c.res.notfound)
       ELSE IF ~Chk(t, "C09:particle-with-table-is-found", ~c.res.notfound) THEN FALSE
       ELSE IF ~Chk(t, "MACHINERY:acyclic-domain", Acyclic(ts, S)) THEN FALSE
       ELSE LET exp == ChainEntries(ts, c.m, S) IN AllOf(<<
            ChkD(t, "C09:one-entry-per-line-in-order", Len(c.res.entries) = Len(exp),
                 [exp |-> Len(exp), obs |-> Len(c.res.entries)]),
            \A j \in DOMAIN exp : j <= Len(c.res.entries) =>
                LET o == c.res.entries[j] e == exp[j] IN AllOf(<<
                  ChkD(t, "C09:entry-carries-bf-model-parameters",
                       o.bf = e.bf /\ o.model = e.model /\ o.ps = e.ps,
                       [line |-> j, exp |-> <<e.bf, e.model, e.ps>>, obs |-> <<o.bf, o.model, o.ps>>]),
                  ChkD(t, "C09:daughters-bare-or-unfolded-with-same-stable-set", o.fs = e.fs,
                       [line |-> j, exp |-> MapSeq(e.fs, LAMBDA k : <<k.n, k.dec>>),
                        obs |-> MapSeq(o.fs, LAMBDA k : <<k.n, k.dec>>)]) >>) >>)

(* C10: c.m, c.res = [trees] read back from the descriptors, c.src for the aliases *)
JudgeC10(t, c) ==
    LET ts == TsOfObs(c.obs)
    IN IF ~Chk(t, "MACHINERY:acyclic-domain", Acyclic(ts, {})) THEN FALSE
       ELSE LET want == PathChoices(c.src, ts, c.m)
                wbag == BagOfSeq(MapSeq(SetToSeq(want), LAMBDA x : CanonTree(x)))
                obag == CanonBag(c.res.trees)
            IN AllOf(<<
                ChkD(t, "MACHINERY:counting-recursion-agrees-with-enumeration",
                     Cardinality(want) = NPaths(ts, c.m), [n |-> NPaths(ts, c.m)]),
                ChkD(t, "C10:length-is-sum-of-products", Len(c.res.trees) = NPaths(ts, c.m),
                     [exp |-> NPaths(ts, c.m), obs |-> Len(c.res.trees)]),
                ChkD(t, "C10:exactly-one-descriptor-per-choice", obag = wbag,
                     [missing |-> {x \in DOMAIN wbag : x \notin DOMAIN obag},
                      unexpected |-> {x \in DOMAIN obag : x \notin DOMAIN wbag}]) >>)
=============================================================================
