----------------------------- MODULE DecSession -----------------------------
(***************************************************************************)
(* A DecFileParser instance over time (C08): parse, queries, in-place      *)
(* mutation of returned values, white-box edits of one internal table      *)
(* ("poke"), re-parse - with an explicit heap so that *sharing* between a  *)
(* derived table (CopyDecay / CDecay) and its source, or between a         *)
(* returned value and internal state, is expressible.                      *)
(*                                                                         *)
(* The file is fixed:  Decay A <lines> ; CopyDecay C A ; CDecay Ab         *)
(* (tables 1 = A, 2 = C, 3 = Ab).  Line lists live in heap objects; a      *)
(* table is a reference to one.  Line content is abstracted to a token:    *)
(* "L" as written, "cL" conjugated, "P" poked, "J" vandalised.             *)
(*                                                                         *)
(* Variant = "independent"    copies and conjugates get their own objects, *)
(*                            queries return fresh values (what C08 says)  *)
(*           "copy_shares"    CopyDecay re-uses the source's object        *)
(*           "conj_in_place"  conjugation is applied to the source object  *)
(*           "returns_internal" a query hands out the internal object      *)
(* TLC shows QueryPure / PokeFrame / ReparseSame hold for the first and    *)
(* fail for each of the others; the behaviours of the first are replayed   *)
(* into the real parser.                                                   *)
(***************************************************************************)
EXTENDS Naturals, Sequences, FiniteSets, TLC, VerifIO, Json, IOUtils

CONSTANTS Variant, MaxLen, EmitMode, Queries

Tabs == 1..3
Objs == 1..6

VARIABLES heap,     \* object id -> content token
          tab,      \* table index -> object id
          nextObj,
          ret,      \* what the last query returned: [kind |-> "none"|"copy"|"ref", ref]
          poked,    \* tables poked since the last parse
          hist,
          tid, l    \* trace validation only: which recorded trace, next event

vars == <<heap, tab, nextObj, ret, poked, hist, tid, l>>
AbsView == <<heap, tab, nextObj, ret, poked>>

\* what parse() builds
ParseResult ==
    LET h0 == [o \in Objs |-> "free"]
        hA == [h0 EXCEPT ![1] = "L"]
    IN CASE Variant = "copy_shares" ->
              [heap |-> [hA EXCEPT ![3] = "cL"], tab |-> <<1, 1, 3>>]
         [] Variant = "conj_in_place" ->
              [heap |-> [hA EXCEPT ![1] = "cL", ![2] = "L"], tab |-> <<1, 2, 1>>]
         [] OTHER ->
              [heap |-> [hA EXCEPT ![2] = "L", ![3] = "cL"], tab |-> <<1, 2, 3>>]

\* what a freshly parsed instance answers about table i
Fresh(i) == IF i = 3 THEN "cL" ELSE "L"
Content(i) == heap[tab[i]]

Init ==
    /\ heap = ParseResult.heap /\ tab = ParseResult.tab /\ nextObj = 4
    /\ ret = [kind |-> "none", ref |-> 0]
    /\ poked = {}
    /\ hist = <<>>
    /\ tid = 0 /\ l = 1

Log(op, arg) == hist' = Append(hist, [op |-> op, arg |-> arg])

\* any public query about table i (or a global one, i = 0): state is only read
Query(q, i) ==
    /\ ret' = IF Variant = "returns_internal" /\ i > 0 THEN [kind |-> "ref", ref |-> tab[i]]
              ELSE [kind |-> "copy", ref |-> 0]
    /\ UNCHANGED <<heap, tab, nextObj, poked>>
    /\ Log(q, i)

\* the caller edits, in place, the value the last query returned
MutateReturned ==
    /\ ret.kind # "none"
    /\ heap' = IF ret.kind = "ref" THEN [heap EXCEPT ![ret.ref] = "J"] ELSE heap
    /\ ret' = [kind |-> "none", ref |-> 0]
    /\ UNCHANGED <<tab, nextObj, poked>>
    /\ Log("mutate", 0)

\* environment: edit one internal node of table i
Poke(i) ==
    /\ heap' = [heap EXCEPT ![tab[i]] = "P"]
    /\ poked' = poked \cup {i}
    /\ ret' = [kind |-> "none", ref |-> 0]
    /\ UNCHANGED <<tab, nextObj>>
    /\ Log("poke", i)

Reparse ==
    /\ heap' = ParseResult.heap /\ tab' = ParseResult.tab
    /\ poked' = {} /\ ret' = [kind |-> "none", ref |-> 0]
    /\ UNCHANGED nextObj
    /\ Log("reparse", 0)

Step ==
    \/ \E q \in Queries, i \in 0..3 : Query(q, i)
    \/ MutateReturned
    \/ \E i \in Tabs : Poke(i)
    \/ Reparse

GenNext ==
    /\ Len(hist) < MaxLen
    /\ Step
    /\ UNCHANGED <<tid, l>>
    /\ CASE EmitMode = "trans" -> Emit("beh", hist')
         [] EmitMode = "paths" -> (Len(hist') < MaxLen \/ Emit("beh", hist'))
         [] OTHER -> TRUE

----------------------------------------------------------------------------
(* trace validation: a recorded trace is a sequence of events                 *)
(*   [op, arg, content (token per table, classified by the harness against a  *)
(*    fresh instance: "L"/"cL" as fresh, "P" the poke and nothing else, "J"    *)
(*    anything else), rest ("same"|"diff": every other answer vs fresh)]       *)
Traces == IF EmitMode = "trace" THEN JsonDeserialize(IOEnv.TRACE_FILE) ELSE <<>>

EventAction(ev) ==
    CASE ev.op = "mutate"  -> MutateReturned
      [] ev.op = "poke"    -> Poke(ev.arg)
      [] ev.op = "reparse" -> Reparse
      [] OTHER             -> Query(ev.op, ev.arg)

TraceNext ==
    \/ /\ tid = 0 /\ tid' \in 1..Len(Traces) /\ UNCHANGED <<heap, tab, nextObj, ret, poked, hist, l>>
    \/ /\ tid > 0 /\ l <= Len(Traces[tid])
       /\ LET ev == Traces[tid][l] IN
          /\ EventAction(ev)
          /\ UNCHANGED tid
          /\ LET ok == AllOf(<<
                    \A i \in Tabs :
                        ChkD(tid, IF ev.op \in {"poke"} \/ poked' # {}
                                  THEN "C08:derived-tables-share-no-state-with-their-source"
                                  ELSE IF ev.op = "reparse" THEN "C08:parsing-again-gives-the-same-answers"
                                  ELSE IF ev.op = "mutate" THEN "C08:mutating-returned-values-leaves-answers-as-fresh"
                                  ELSE "C08:queries-leave-answers-as-fresh",
                             heap'[tab'[i]] = ev.content[i],
                             [step |-> l, op |-> ev.op, arg |-> ev.arg, table |-> i, exp |-> heap'[tab'[i]], obs |-> ev.content[i]]),
                    ChkD(tid, IF ev.op = "reparse" THEN "C08:parsing-again-gives-the-same-answers"
                              ELSE IF ev.op = "mutate" THEN "C08:mutating-returned-values-leaves-answers-as-fresh"
                              ELSE "C08:queries-leave-answers-as-fresh",
                         poked' = {} => ev.rest = "same", [step |-> l, op |-> ev.op, arg |-> ev.arg]) >>)
             IN IF ok THEN l' = l + 1 /\ (IF l + 1 <= Len(Traces[tid]) THEN TRUE ELSE Verdict(tid, TRUE))
                ELSE l' = Len(Traces[tid]) + 2 /\ Verdict(tid, FALSE)

Next == IF EmitMode = "trace" THEN TraceNext ELSE GenNext

----------------------------------------------------------------------------
\* queries and mutations of returned values never change later answers
QueryPure == \A i \in Tabs : i \notin poked => Content(i) = Fresh(i)
\* a poke in table i changes the answers about i only  (derived tables share nothing)
PokeFrame == \A i \in Tabs : (i \in poked) <=> (Content(i) = "P")
NoSharing == \A i, j \in Tabs : tab[i] = tab[j] => i = j
\* reachability companion (expected to be violated)
NeverPokedAndQueried == ~(poked # {} /\ ret.kind = "copy")
=============================================================================
