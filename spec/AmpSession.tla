----------------------------- MODULE AmpSession -----------------------------
(***************************************************************************)
(* The process-wide state of the AmpGen reader classes (C20):              *)
(*   all_particles       a class attribute of AmplitudeChain holding a set *)
(*                       that `cls.all_particles |= {p}` mutates in place: *)
(*                       one object shared by the three classes            *)
(*   cartesian[cls]      class attribute with Python's look-up: a class    *)
(*                       that never assigned it sees its base class' value *)
(*   the pars / consts tables of the two GooFit classes (replaced by every *)
(*   read of that class)                                                   *)
(* A file is abstracted to [res, cart]: the resonances it mentions and its *)
(* coherent-sum option ("absent" | "0" | "1").  A call is [cls, f]; its    *)
(* result is what a user can observe: which resonance variables are        *)
(* declared and how couplings are read.                                    *)
(*                                                                         *)
(* Variant "accumulating" - particles of earlier reads stay in the set and *)
(*                          the switch is only ever set   (defects F8, F13)*)
(* Variant "per_read"     - the set starts empty at every read and the     *)
(*                          switch is restored when the read returns or is *)
(*                          rejected                                       *)
(* Variant "no_restore_when_rejected" - as per_read, but a rejected read   *)
(*                          leaves the switch as the file set it           *)
(* Variant "params_into_particles" - as per_read, but a file's <name>_mass  *)
(*                          / _width parameters are written into the       *)
(*                          process-wide particle objects                  *)
(* Variant "index_memo"  - as per_read, but the index lists of an amplitude  *)
(*                          structure are remembered across files whatever *)
(*                          the order of the event type                    *)
(* Variant "table_on_demand" - as per_read, but the special particle table *)
(*                          (which also overrides K(1460)) is only loaded  *)
(*                          by a file that names a pseudo-particle         *)
(* TLC checks HistoryIndependent for "per_read", refutes the five others,   *)
(* and emits every history for replay against fresh interpreters.          *)
(***************************************************************************)
EXTENDS Naturals, Sequences, FiniteSets, TLC, VerifIO, Json, IOUtils

CONSTANTS Variant, MaxLen, EmitMode

Classes == {"base", "cpp", "py"}
Files == {"fA", "fB", "fC", "fD", "fE", "fF", "fG", "fH"}
\* (the resonance content of the four files of harness/c20.py)
\* fE carries the cartesian option and a resonance name the particle table does not know: the read is rejected.
\* pseudo: the file names one of the pseudo-particles of the special table (KPi00, PiPi00, ...); sensitive: it names
\* a particle whose mass and width the special table *overrides* (K(1460)), so its result shows whether that
\* process-wide table was loaded when the file was read.  sets: resonances for which the file carries <name>_mass /
\* <name>_width parameter lines (fD for r3); those are fit parameters of that file and nothing else.
FileOf(f) == CASE f = "fA" -> [res |-> {"r1", "r2"}, cart |-> "absent", fails |-> FALSE, pseudo |-> FALSE, sensitive |-> FALSE, sets |-> {}, struct |-> "s1", order |-> "o1"]
               [] f = "fB" -> [res |-> {"r2", "r3"}, cart |-> "1", fails |-> FALSE, pseudo |-> FALSE, sensitive |-> FALSE, sets |-> {}, struct |-> "sB", order |-> "o1"]
               [] f = "fC" -> [res |-> {"r4", "r6", "r7"}, cart |-> "0", fails |-> FALSE, pseudo |-> TRUE, sensitive |-> FALSE, sets |-> {}, struct |-> "sC", order |-> "o1"]
               [] f = "fD" -> [res |-> {"r1", "r3", "r5", "r8"}, cart |-> "absent", fails |-> FALSE, pseudo |-> FALSE, sensitive |-> FALSE, sets |-> {"r3"}, struct |-> "sD", order |-> "o1"]
               [] f = "fE" -> [res |-> {"r1"}, cart |-> "1", fails |-> TRUE, pseudo |-> FALSE, sensitive |-> FALSE, sets |-> {}, struct |-> "sE", order |-> "o1"]
               \* fG: the amplitudes of fA under an event type that lists the same particles in another order
               [] f = "fG" -> [res |-> {"r1", "r2"}, cart |-> "absent", fails |-> FALSE, pseudo |-> FALSE, sensitive |-> FALSE, sets |-> {},
                               struct |-> "s1", order |-> "o2"]
               \* fH: two cascades with the longest names a four-body amplitude can have (splined and K-matrix lineshapes)
               [] f = "fH" -> [res |-> {"r1", "r2", "r3", "r4"}, cart |-> "absent", fails |-> FALSE, pseudo |-> FALSE, sensitive |-> FALSE, sets |-> {}, struct |-> "sH", order |-> "o1"]
               [] f = "fF" -> [res |-> {"r1", "r9"}, cart |-> "absent", fails |-> FALSE, pseudo |-> FALSE, sensitive |-> TRUE, sets |-> {}, struct |-> "sF", order |-> "o1"]

VARIABLES allP,    \* the shared set
          cart,    \* cls -> "unset" | "F" | "T"   ("unset": look at the base class)
          tbl,     \* the special particle table has been appended to the process-wide particle table
          pmod,    \* resonances whose (process-wide, shared) particle object had its mass / width overwritten
          memo,    \* amplitude structure -> event-type order under which its index lists were first computed
          hist,
          tid, l   \* trace validation only
vars == <<allP, cart, tbl, pmod, memo, hist, tid, l>>
AbsView == <<allP, cart, tbl, pmod, memo>>

Lookup(c, cls) == IF c[cls] # "unset" THEN c[cls] ELSE IF c["base"] # "unset" THEN c["base"] ELSE "F"

Init == allP = {} /\ cart = [c \in Classes |-> IF c = "base" THEN "F" ELSE "unset"] /\ tbl = FALSE /\ pmod = {} /\ memo = {} /\ hist = <<>> /\ tid = 0 /\ l = 1

\* what the call returns when made in state (a, c), and the state it leaves
\* the table the read works with: every read loads it first thing, except in the variant that loads it on demand
TableAfter(t, f) == IF Variant = "table_on_demand" THEN t \/ FileOf(f).pseudo ELSE TRUE
After(a, c, t, pm, mm, cls, f) ==
    LET F == FileOf(f)
        c1 == IF F.cart = "absent" THEN c ELSE [c EXCEPT ![cls] = IF F.cart = "1" THEN "T" ELSE "F"]
        a0 == IF Variant = "accumulating" THEN a ELSE {}
        a1 == a0 \cup F.res
        t1 == TableAfter(t, f)
        \* the variant that writes a file's <name>_mass / _width parameters into the shared particle objects
        pm1 == IF Variant = "params_into_particles" THEN pm \cup F.sets ELSE pm
        \* the variant that remembers index lists per amplitude structure, whatever the event type's order
        known == {p \in mm : p[1] = F.struct}
        mm1 == IF Variant = "index_memo" /\ known = {} THEN mm \cup {<<F.struct, F.order>>} ELSE mm
        indices == IF Variant = "index_memo" /\ known # {} THEN (CHOOSE p \in known : TRUE)[2] ELSE F.order
        massfrom == [r \in F.res |-> IF r \in F.sets /\ Variant = "params_into_particles" THEN "own-parameter"
                                      ELSE IF r \in pm THEN "earlier-file" ELSE "table"]
    IN IF F.fails
       THEN [result |-> [declared |-> {"rejected"}, coupling |-> "rejected", table |-> "n/a", massfrom |-> <<>>,
                         indices |-> "n/a"],
             allP |-> a1, tbl |-> t1, pmod |-> pm, memo |-> mm,
             \* the option has been applied when the read is rejected: it must be put back on this path too
             cart |-> IF Variant \in {"per_read", "table_on_demand", "params_into_particles", "index_memo"} THEN c ELSE c1]
       ELSE [result |-> [declared |-> a1, coupling |-> Lookup(c1, cls),
                         table |-> IF ~F.sensitive THEN "n/a" ELSE IF t1 THEN "special" ELSE "plain",
                         massfrom |-> massfrom, indices |-> indices],
             allP |-> a1, tbl |-> t1, pmod |-> pm1, memo |-> mm1,
             cart |-> IF Variant \in {"per_read", "no_restore_when_rejected", "table_on_demand", "params_into_particles", "index_memo"} THEN c ELSE c1]

Call(cls, f) ==
    LET r == After(allP, cart, tbl, pmod, memo, cls, f) IN
    /\ allP' = r.allP
    /\ cart' = r.cart
    /\ tbl' = r.tbl
    /\ pmod' = r.pmod
    /\ memo' = r.memo
    /\ hist' = Append(hist, [cls |-> cls, f |-> f, result |-> r.result])

GenNext ==
    /\ Len(hist) < MaxLen
    /\ \E cls \in Classes, f \in Files : Call(cls, f)
    /\ UNCHANGED <<tid, l>>
    /\ CASE EmitMode = "paths" -> (IF Len(hist') < MaxLen THEN TRUE ELSE Emit("hist", hist'))
         [] OTHER -> TRUE

\* trace validation: a recorded history is a sequence of events [cls, f, declared, coupling]
\* (declared: the resonance variables the output declares, as a sequence of abstract names, or
\*  <<"n/a">> for a plain read; coupling: "T" | "F" as the harness reads it off the numbers)
Traces == IF EmitMode = "trace" THEN JsonDeserialize(IOEnv.TRACE_FILE) ELSE <<>>
TraceNext ==
    \/ /\ tid = 0 /\ tid' \in 1..Len(Traces) /\ UNCHANGED <<allP, cart, tbl, pmod, memo, hist, l>>
    \/ /\ tid > 0 /\ l <= Len(Traces[tid])
       /\ LET ev == Traces[tid][l] IN
          /\ Call(ev.cls, ev.f)
          /\ UNCHANGED tid
          /\ LET want == hist'[Len(hist')].result
                 ok == AllOf(<<
                    ChkD(tid, "C20:a-file-is-accepted-or-rejected-whatever-came-before",
                         ev.rejected = FileOf(ev.f).fails, [step |-> l, call |-> <<ev.cls, ev.f>>, obs |-> ev.rejected]),
                    ChkD(tid, "C20:declared-resonance-variables-are-those-of-the-file-read",
                         ev.declared = <<"n/a">> \/ {ev.declared[i] : i \in DOMAIN ev.declared} = want.declared,
                         [step |-> l, call |-> <<ev.cls, ev.f>>, exp |-> want.declared, obs |-> ev.declared]),
                    ChkD(tid, "C20:resonance-masses-come-from-the-table-not-from-an-earlier-file",
                         \A i \in DOMAIN ev.masses : ev.masses[i][1] \notin DOMAIN want.massfrom
                                                      \/ want.massfrom[ev.masses[i][1]] = ev.masses[i][2],
                         [step |-> l, call |-> <<ev.cls, ev.f>>, exp |-> want.massfrom, obs |-> ev.masses]),
                    ChkD(tid, "C20:particle-parameters-do-not-depend-on-earlier-files",
                         ev.table = "n/a" \/ ev.table = want.table,
                         [step |-> l, call |-> <<ev.cls, ev.f>>, exp |-> want.table, obs |-> ev.table]),
                    ChkD(tid, "C20:couplings-read-as-the-files-own-option-says",
                         ev.coupling = "n/a" \/ ev.coupling = want.coupling,
                         [step |-> l, call |-> <<ev.cls, ev.f>>, exp |-> want.coupling, obs |-> ev.coupling]) >>)
             IN IF ok THEN l' = l + 1 /\ (IF l + 1 <= Len(Traces[tid]) THEN TRUE ELSE Verdict(tid, TRUE))
                ELSE l' = Len(Traces[tid]) + 2 /\ Verdict(tid, FALSE)

Next == IF EmitMode = "trace" THEN TraceNext ELSE GenNext

InitA == {}
InitC == [c \in Classes |-> IF c = "base" THEN "F" ELSE "unset"]
\* whatever was read or converted earlier, by whichever class, a call gives what it gives in a fresh process
HistoryIndependent ==
    \A cls \in Classes, f \in Files :
        After(allP, cart, tbl, pmod, memo, cls, f).result = After(InitA, InitC, FALSE, {}, {}, cls, f).result
\* reachability companion (expected to be violated): overlapping resonance content does occur
NeverOverlap == ~(Len(hist) >= 2 /\ FileOf(hist[1].f).res \cap FileOf(hist[2].f).res # {}
                  /\ FileOf(hist[1].f).res # FileOf(hist[2].f).res)
=============================================================================
