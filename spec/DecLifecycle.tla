---------------------------- MODULE DecLifecycle ----------------------------
(***************************************************************************)
(* Growth beyond the listed properties: the life cycle of a DecFileParser  *)
(* instance - construction, grammar loading, registration of additional    *)
(* decay models, parse, re-parse, queries - as a state machine.            *)
(*                                                                         *)
(* The text of the instance uses one model name X that is not in the       *)
(* published list (UsesX = TRUE) or only published ones (FALSE).           *)
(*   Construct(k)   k = "string" | "default" (no text at all)              *)
(*   Grammar        grammar() / grammar_info(): loads the grammar          *)
(*   Register       load_additional_decay_models("X")                      *)
(*   Parse          parse(): loads the grammar if needed; succeeds iff the *)
(*                  instance has a text and every model it uses is known   *)
(*                  *at that moment* (published, or registered before this *)
(*                  parse - whether or not the grammar was loaded earlier) *)
(*   Query          any query: DecFileNotParsed until a parse has stored   *)
(*                  the syntax tree.  Named deviation (observed, modelled  *)
(*                  as the code has it): a parse that fails *after* the    *)
(*                  syntax phase - an undefined model label is only found  *)
(*                  in the alias-replacement phase - leaves the tree       *)
(*                  stored, so later queries answer (from half-processed   *)
(*                  tables) and the next parse() warns about re-parsing.   *)
(* Every behaviour is emitted and replayed on a real instance; outcomes    *)
(* (ok / not-parsed / error / warning on re-parse) are compared step by    *)
(* step.                                                                   *)
(***************************************************************************)
EXTENDS Naturals, Sequences, TLC, VerifIO

CONSTANTS UsesX, MaxLen

VARIABLES kind, grammar, registered, parsed, attempts, hist
vars == <<kind, grammar, registered, parsed, attempts, hist>>

Init ==
    /\ kind \in {"string", "default"}
    /\ grammar = FALSE /\ registered = FALSE /\ parsed = FALSE /\ attempts = 0 /\ hist = <<>>

Log(op, out) == hist' = Append(hist, [op |-> op, out |-> out])

Grammar == /\ grammar' = TRUE /\ UNCHANGED <<kind, registered, parsed, attempts>> /\ Log("grammar", "ok")
Register == /\ registered' = TRUE /\ UNCHANGED <<kind, grammar, parsed, attempts>> /\ Log("register", "ok")

CanParse == kind = "string" /\ (~UsesX \/ registered)
\* `parsed` = the syntax tree (and the list of decays) is stored in the instance
Parse ==
    /\ grammar' = TRUE
    /\ attempts' = attempts + 1
    /\ IF kind = "string" THEN parsed' = TRUE ELSE parsed' = parsed
    /\ UNCHANGED <<kind, registered>>
    \* a parse after an earlier one that got past the syntax phase announces that the file is being re-parsed
    /\ Log("parse", IF ~CanParse THEN (IF parsed THEN "error-with-reparse-warning" ELSE "error")
                    ELSE IF parsed THEN "ok-with-reparse-warning" ELSE "ok")

Query ==
    /\ UNCHANGED <<kind, grammar, registered, parsed, attempts>>
    /\ Log("query", IF parsed THEN "ok" ELSE "not-parsed")

Next ==
    /\ Len(hist) < MaxLen
    /\ (Grammar \/ Register \/ Parse \/ Query)
    /\ (IF Len(hist') < MaxLen THEN TRUE ELSE Emit("life", [kind |-> kind, usesx |-> UsesX, hist |-> hist']))

\* answers are only ever given after parse() has been called on an instance that has a text
AnswersOnlyAfterParse ==
    \A i \in DOMAIN hist : (hist[i].op = "query" /\ hist[i].out = "ok") =>
        kind = "string" /\ \E j \in 1..(i - 1) : hist[j].op = "parse"
\* a model registered before a parse is known to that parse, whatever happened before (F15)
RegisteredBeforeParseIsKnown ==
    \A i \in DOMAIN hist : (hist[i].op = "parse" /\ kind = "string" /\
                            (\E j \in 1..(i - 1) : hist[j].op = "register")) => hist[i].out \notin {"error", "error-with-reparse-warning"}
=============================================================================
