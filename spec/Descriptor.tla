----------------------------- MODULE Descriptor -----------------------------
(***************************************************************************)
(* The descriptor-format setting of decaylanguage as a stack machine.      *)
(*                                                                         *)
(* Real state modelled:                                                    *)
(*   DescriptorFormat.config      - process-wide pair of patterns          *)
(*   DescriptorFormat instances   - context objects (new pattern pair and  *)
(*                                  whatever they save to restore later)   *)
(*   the dynamic nesting of `with` blocks (LIFO by construction of Python) *)
(*                                                                         *)
(* One action per public operation: Create (constructor), Enter/Exit       *)
(* (__enter__/__exit__, normal or by exception), Set (set_config), Render  *)
(* (format_descriptor through DecayChain.to_string).                       *)
(*                                                                         *)
(* A pattern pair is an opaque id: Valid ids stand for pairs in which both *)
(* patterns carry exactly the placeholders {mother} and {daughters};       *)
(* Invalid ids for pairs in which at least one pattern lacks one or has a  *)
(* foreign one.  The harness owns the concrete spellings.                  *)
(*                                                                         *)
(* Variant selects how a context object remembers what to restore:         *)
(*   "per_entry_stack"  every successful __enter__ pushes the format in    *)
(*                      force; __exit__ pops            (what C14 demands) *)
(*   "saved_at_init"    saved once in the constructor   (defect F11)       *)
(*   "slot_at_enter"    one slot overwritten at __enter__ (breaks when the *)
(*                      same object is entered again while active)         *)
(* TLC shows RestoresEntry holds for the first and fails for the others.   *)
(***************************************************************************)
EXTENDS Naturals, Sequences, FiniteSets, TLC, VerifIO

CONSTANTS NCtx,        \* number of context-object slots
          Valid,       \* set of valid pattern-pair ids; "v0" is the default
          Invalid,     \* set of invalid pattern-pair ids
          MaxLen,      \* bound on the number of operations of a behaviour
          MaxDepth,    \* bound on `with` nesting
          Variant,
          EmitMode     \* "none" | "trans" (every transition, VIEW without hist) | "paths"

Pats == Valid \cup Invalid
Ctx  == 1..NCtx
Default == "v0"

VARIABLES config,   \* format in force
          obj,      \* obj[c] = [made, new, init, saved]
          active,   \* entered context objects, innermost last
          ghost,    \* format in force at each entry (property-level, not in the code)
          last,     \* what the last operation was and how it ended
          hist      \* the behaviour so far (only for emission)

vars  == <<config, obj, active, ghost, last, hist>>
AbsView == <<config, obj, active, ghost>>

NoObj == [made |-> FALSE, new |-> Default, init |-> Default, saved |-> <<>>]

Init ==
    /\ config = Default
    /\ obj = [c \in Ctx |-> NoObj]
    /\ active = <<>>
    /\ ghost = <<>>
    /\ last = [a |-> "Init", x |-> "-", out |-> "ok"]
    /\ hist = <<>>

Log(a, x, out, cfg) == hist' = Append(hist, [a |-> a, x |-> x, out |-> out, cfg |-> cfg])

InActive(c) == \E i \in 1..Len(active) : active[i] = c

\* DescriptorFormat(p_top, p_sub): nothing is validated at construction
Create(c, p) ==
    /\ ~InActive(c)
    /\ obj' = [obj EXCEPT ![c] = [made |-> TRUE, new |-> p, init |-> config, saved |-> <<>>]]
    /\ UNCHANGED <<config, active, ghost>>
    /\ last' = [a |-> "Create", x |-> p, out |-> "ok"]
    /\ Log("Create", <<ToString(c), p>>, "ok", config)

\* `with c:` - __enter__ calls set_config(new); an invalid pattern raises
\* ValueError out of __enter__, the block is not entered, nothing is saved
Enter(c) ==
    /\ obj[c].made
    /\ Len(active) < MaxDepth
    /\ IF obj[c].new \in Invalid
       THEN /\ UNCHANGED <<config, obj, active, ghost>>
            /\ last' = [a |-> "Enter", x |-> ToString(c), out |-> "error"]
            /\ Log("Enter", <<ToString(c), obj[c].new>>, "error", config)
       ELSE /\ config' = obj[c].new
            /\ obj' = [obj EXCEPT ![c].saved =
                         IF Variant = "slot_at_enter" THEN <<config>> ELSE Append(@, config)]
            /\ active' = Append(active, c)
            /\ ghost' = Append(ghost, config)
            /\ last' = [a |-> "Enter", x |-> ToString(c), out |-> "ok"]
            /\ Log("Enter", <<ToString(c), obj[c].new>>, "ok", config')

Restored(c) ==
    CASE Variant = "per_entry_stack" -> obj[c].saved[Len(obj[c].saved)]
      [] Variant = "saved_at_init"   -> obj[c].init
      [] Variant = "slot_at_enter"   -> obj[c].saved[1]

\* leaving the innermost block, normally or because an exception propagates
Exit(kind) ==
    /\ active # <<>>
    /\ LET c == active[Len(active)] IN
       /\ config' = Restored(c)
       /\ obj' = [obj EXCEPT ![c].saved =
                    IF Variant = "per_entry_stack" THEN SubSeq(@, 1, Len(@) - 1) ELSE @]
       /\ active' = SubSeq(active, 1, Len(active) - 1)
       /\ ghost' = SubSeq(ghost, 1, Len(ghost) - 1)
       /\ last' = [a |-> "Exit", x |-> kind, out |-> "ok"]
       /\ Log("Exit", <<ToString(c), kind>>, "ok", config')

\* DescriptorFormat.set_config(p): both patterns are validated before assignment
Set(p) ==
    /\ IF p \in Invalid
       THEN /\ config' = config
            /\ last' = [a |-> "Set", x |-> p, out |-> "error"]
            /\ Log("Set", <<p, p>>, "error", config)
       ELSE /\ config' = p
            /\ last' = [a |-> "Set", x |-> p, out |-> "ok"]
            /\ Log("Set", <<p, p>>, "ok", p)
    /\ UNCHANGED <<obj, active, ghost>>

Render ==
    /\ UNCHANGED <<config, obj, active, ghost>>
    /\ last' = [a |-> "Render", x |-> config, out |-> "ok"]
    /\ Log("Render", <<config, config>>, "ok", config)

Step ==
    \/ \E c \in Ctx, p \in Pats : Create(c, p)
    \/ \E c \in Ctx : Enter(c)
    \/ \E k \in {"normal", "exception"} : Exit(k)
    \/ \E p \in Pats : Set(p)
    \/ Render

\* EmitMode "drain": MaxLen free steps, then every block still open is left, innermost first, and the whole behaviour
\* is emitted when the last one has been left - walks that end outside every block, whatever depth they reached
Drain ==
    \/ /\ Len(hist) < MaxLen
       /\ Step
       /\ (Len(hist') < MaxLen \/ active' # <<>> \/ Emit("beh", hist'))
    \/ /\ Len(hist) >= MaxLen
       /\ \E k \in {"normal", "exception"} : Exit(k)
       /\ (active' # <<>> \/ Emit("beh", hist'))

Next ==
    IF EmitMode = "drain" THEN Drain
    ELSE /\ Len(hist) < MaxLen
         /\ Step
         /\ CASE EmitMode = "trans" -> Emit("beh", hist')
              [] EmitMode = "paths" -> (Len(hist') < MaxLen \/ Emit("beh", hist'))
              [] OTHER -> TRUE

Spec == Init /\ [][Next]_vars

----------------------------------------------------------------------------
(* Properties (C14) *)

TypeOK ==
    /\ config \in Valid
    /\ Len(active) = Len(ghost)
    /\ \A c \in Ctx : obj[c].new \in Pats

\* leaving a context restores exactly the format in force when *that* entry happened
RestoresEntry ==
    [][(last'.a = "Exit" /\ active # <<>> /\ Len(active') < Len(active))
          => config' = ghost[Len(ghost)]]_vars

\* a rejected pattern leaves the format, every context object and the nesting unchanged
InvalidInert ==
    [][last'.out = "error" => UNCHANGED <<config, obj, active, ghost>>]_vars

\* an invalid pattern is never in force
NeverInvalid == config \in Valid

\* when all blocks have been left the format is the one set outside any block
\* (follows from RestoresEntry; stated separately because it is what a user sees)
Balanced == active = <<>> => ghost = <<>>

\* reachability companions (expected to be VIOLATED: the antecedents are not vacuous)
NoNestedReentry == ~ \E i, j \in 1..Len(active) : i < j /\ active[i] = active[j]
NoSetInsideBlock == ~ (active # <<>> /\ config # obj[active[Len(active)]].new)
=============================================================================
