------------------------------ MODULE DecPrint ------------------------------
(***************************************************************************)
(* print_decay_modes (C16): which calls are refused, the order of the      *)
(* rows, which columns are shown and which of the three scalings applies.  *)
(*                                                                         *)
(* A table is a sequence of lines [r, ph]: r is the *rank* of the line's   *)
(* branching fraction (equal ranks = equal values; the harness maps ranks  *)
(* to concrete values spanning 1e-12..1 and does the arithmetic exactly).  *)
(* Options: [model, kw, asc, norm, scale] with scale in                    *)
(*   "none" | "one" (=1) | "frac" (in (0,1)) | "zero" | "neg" | "big" (>1) *)
(*                                                                         *)
(* Mode = "gen":   TLC enumerates every (table, options) of the bounded    *)
(*                 universe, checks the sorting lemmas and emits the cases *)
(* Mode = "trace": TLC judges observations recorded from the real code     *)
(***************************************************************************)
EXTENDS Naturals, Sequences, FiniteSets, TLC, SequencesExt, VerifIO, Json, IOUtils

CONSTANTS Mode, MaxLines, MaxRank

Scales == {"none", "one", "frac", "zero", "neg", "big"}
BadScales == {"zero", "neg", "big", "nan"}
Opts == [model : BOOLEAN, kw : BOOLEAN, asc : BOOLEAN, norm : BOOLEAN, scale : Scales]

\* contradictory or out-of-range options are refused
Refused(o) == o.scale # "none" /\ (o.norm \/ o.scale \in BadScales)

\* rows ordered by branching fraction in the requested direction, file order among equals
Before(lines, asc, a, b) ==
    \/ (IF asc THEN lines[a].r < lines[b].r ELSE lines[a].r > lines[b].r)
    \/ (lines[a].r = lines[b].r /\ a < b)
Order(lines, asc) == SetToSortSeq(DOMAIN lines, LAMBDA a, b : Before(lines, asc, a, b))

\* what the code does: a stable sort (insertion of each index, in file order, after
\* every element that is not strictly worse) - checked by TLC to equal Order
RECURSIVE InsertAll(_, _, _, _)
InsertAll(lines, asc, done, i) ==
    IF i > Len(lines) THEN done
    ELSE LET worse(j) == IF asc THEN lines[done[j]].r > lines[i].r ELSE lines[done[j]].r < lines[i].r
             pos == IF \E j \in DOMAIN done : worse(j)
                    THEN (CHOOSE j \in DOMAIN done : worse(j) /\ \A k \in 1..(j-1) : ~worse(k))
                    ELSE Len(done) + 1
         IN InsertAll(lines, asc, SubSeq(done, 1, pos - 1) \o <<i>> \o SubSeq(done, pos, Len(done)), i + 1)
StableSort(lines, asc) == InsertAll(lines, asc, <<>>, 1)

ValueKind(o) == IF o.norm THEN "norm" ELSE IF o.scale = "none" THEN "raw" ELSE "scale"

IsPerm(p, n) == Len(p) = n /\ {p[i] : i \in DOMAIN p} = 1..n

----------------------------------------------------------------------------
(* generation *)
Lines == [r : 1..MaxRank, ph : BOOLEAN]
Tables == UNION {[1..n -> Lines] : n \in 1..MaxLines}

VARIABLES tbl, opt, tid, done
vars == <<tbl, opt, tid, done>>

SortLemmas ==
    Mode = "gen" =>
        /\ IsPerm(Order(tbl, opt.asc), Len(tbl))
        /\ Order(tbl, opt.asc) = StableSort(tbl, opt.asc)
        /\ \A i \in 1..(Len(tbl) - 1) :
              LET p == Order(tbl, opt.asc) IN
              /\ (opt.asc => tbl[p[i]].r <= tbl[p[i+1]].r)
              /\ (~opt.asc => tbl[p[i]].r >= tbl[p[i+1]].r)
              /\ (tbl[p[i]].r = tbl[p[i+1]].r => p[i] < p[i+1])
\* reachability companion (expected to be violated): ties exist and both directions differ
NoTies == ~(Mode = "gen" /\ \E i, j \in DOMAIN tbl : i # j /\ tbl[i].r = tbl[j].r /\
                                Order(tbl, TRUE) # Order(tbl, FALSE))

----------------------------------------------------------------------------
(* judging:  case = [lines, opt, pdg, obs]                                   *)
(*   obs = [raised, order (sequence of line indices, one per printed row),   *)
(*          rows = Seq([model, kw, params (booleans: column present), fits   *)
(*          (kinds of scaling the printed number is numerically consistent   *)
(*          with, computed exactly by the harness)]), stored_same]           *)
Cases == IF Mode = "trace" THEN JsonDeserialize(IOEnv.TRACE_FILE) ELSE <<>>

Judge(t, c) ==
    LET o == c.opt obs == c.obs lines == c.lines IN
    IF Refused(o) THEN
        AllOf(<< Chk(t, "C16:contradictory-or-out-of-range-options-refused", obs.raised),
                 Chk(t, "C16:nothing-printed-when-refused", obs.order = <<>>),
                 Chk(t, "C16:printing-never-alters-stored-values", obs.stored_same) >>)
    ELSE IF ~Chk(t, "C16:valid-options-accepted", ~obs.raised) THEN FALSE
    ELSE AllOf(<<
        ChkD(t, "C16:every-mode-once", IsPerm(obs.order, Len(lines)), [obs |-> obs.order]),
        ChkD(t, "C16:ordered-by-bf-in-requested-direction-ties-in-file-order",
             obs.order = Order(lines, o.asc), [exp |-> Order(lines, o.asc), obs |-> obs.order]),
        \A i \in DOMAIN obs.rows : i <= Len(obs.order) /\ obs.order[i] \in DOMAIN lines =>
            LET row == obs.rows[i] ln == lines[obs.order[i]] IN AllOf(<<
              ChkD(t, "C16:model-and-parameters-shown-when-requested",
                   row.model = o.model /\ row.params = o.model, [row |-> i]),
              ChkD(t, "C16:photos-keyword-shown-when-requested-and-present",
                   row.kw = (o.model /\ o.kw /\ ln.ph), [row |-> i, obs |-> row.kw]),
              ChkD(t, "C16:value-unchanged-normalised-or-scaled-by-common-factor",
                   ValueKind(o) \in {row.fits[k] : k \in DOMAIN row.fits},
                   [row |-> i, kind |-> ValueKind(o), fits |-> row.fits]) >>),
        Chk(t, "C16:printing-never-alters-stored-values", obs.stored_same) >>)

----------------------------------------------------------------------------
Init ==
    IF Mode = "gen"
    THEN tbl \in Tables /\ opt \in Opts /\ tid = 0 /\ done = FALSE
    ELSE tbl = <<>> /\ opt = [model |-> TRUE, kw |-> TRUE, asc |-> FALSE, norm |-> FALSE, scale |-> "none"]
         /\ tid = 0 /\ done = FALSE

Next ==
    IF Mode = "gen"
    THEN /\ ~done /\ done' = TRUE /\ UNCHANGED <<tbl, opt, tid>>
         /\ Emit("case", [lines |-> tbl, opt |-> opt,
                          refused |-> Refused(opt), order |-> IF Refused(opt) THEN <<>> ELSE Order(tbl, opt.asc)])
    ELSE \/ /\ tid = 0 /\ tid' \in 1..Len(Cases) /\ UNCHANGED <<tbl, opt, done>>
         \/ /\ tid > 0 /\ ~done /\ Verdict(tid, Judge(tid, Cases[tid]))
            /\ done' = TRUE /\ UNCHANGED <<tbl, opt, tid>>
=============================================================================
