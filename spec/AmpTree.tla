------------------------------ MODULE AmpTree ------------------------------
(***************************************************************************)
(* Growth beyond the listed properties: the per-node queries of a decay    *)
(* tree of the modelling package (ModelDecay / AmplitudeChain) that no     *)
(* listed property owns:                                                   *)
(*   vertexes, structure, str(), full_amp, L_range(), L, ls_enum.          *)
(*                                                                         *)
(* A tree is [name, pname, twoJ, sf, ls, amp, kids]:                       *)
(*   name   the name as written (AmpGen spelling), pname the name of the   *)
(*          particle it resolves to (what str() shows)                     *)
(*   twoJ   twice the spin of the particle (reference data of the harness) *)
(*   sf     "-" | "S" | "P" | "D"        spin tag                          *)
(*   ls     [fam, tag]  fam in none | GSpline.EFF | kMatrix | FOCUS | other *)
(*   amp    an opaque coupling token, "one" when the node has none         *)
(*   kids   <<>> or 2 (any number when built through the API) subtrees     *)
(*                                                                         *)
(* Where the code's rule differs from the documented / physical one, both  *)
(* are written down (..Code / ..Intended), TLC states where they agree     *)
(* (lemmas) and produces the smallest input where they do not; the code is *)
(* bound to the ..Code form by replay.                                     *)
(***************************************************************************)
EXTENDS Integers, Sequences, FiniteSets, TLC, SequencesExt, VerifIO, Json, IOUtils

CONSTANTS Mode, MaxTwoJ

RangeOf(s) == {s[i] : i \in DOMAIN s}
MapSeq(s, F(_)) == [i \in DOMAIN s |-> F(s[i])]
RECURSIVE Flat(_)
Flat(ss) == IF ss = <<>> THEN <<>> ELSE Head(ss) \o Flat(Tail(ss))
Abs(x) == IF x < 0 THEN -x ELSE x
MinOf(S) == CHOOSE x \in S : \A y \in S : x <= y
MaxOf(S) == CHOOSE x \in S : \A y \in S : y <= x
IsVertex(t) == Len(t.kids) = 2

----------------------------------------------------------------------------
(* orbital momentum (all spins doubled) *)
LRangeCode(S, s1, s2) == <<MinOf({Abs(S - s1 - s2), Abs(S + s1 - s2), Abs(S - s1 + s2)}), S + s1 + s2>>
\* the triangle rule: total daughter spin s in |s1-s2| .. s1+s2, then L in |S-s| .. S+s (steps of one unit = 2 here)
StepSet(lo, hi) == {x \in lo..hi : (x - lo) % 2 = 0}
LSetIntended(S, s1, s2) == UNION {StepSet(Abs(S - s), S + s) : s \in StepSet(Abs(s1 - s2), s1 + s2)}
LRangeIntended(S, s1, s2) == <<MinOf(LSetIntended(S, s1, s2)), MaxOf(LSetIntended(S, s1, s2))>>
Physical(S, s1, s2) == (S + s1 + s2) % 2 = 0        \* integer orbital momentum exists at all
\* L: the spin tag's letter, the lowest allowed value when no tag is written
LetterL(sf) == CASE sf = "S" -> 0 [] sf = "P" -> 2 [] sf = "D" -> 4 [] sf = "F" -> 6
LCode(t) == IF t.sf # "-" THEN LetterL(t.sf) ELSE LRangeCode(t.twoJ, t.kids[1].twoJ, t.kids[2].twoJ)[1]

\* the lineshape family
LsEnum(t) == CASE t.ls.fam = "none" -> "RBW"
               [] t.ls.fam = "GSpline.EFF" -> "GSpline"
               [] t.ls.fam = "kMatrix" -> "kMatrix"
               [] t.ls.fam = "FOCUS" -> "FOCUS"
               [] OTHER -> "error"

----------------------------------------------------------------------------
(* structure *)
\* Code: a daughter's own vertexes are only collected when the daughter is itself a two-body vertex
RECURSIVE VertexesCode(_)
VertexesCode(t) == Flat([i \in DOMAIN t.kids |->
                          IF IsVertex(t.kids[i]) THEN <<t.kids[i]>> \o VertexesCode(t.kids[i]) ELSE <<>>])
\* Intended: every two-body vertex below the node, in pre-order
RECURSIVE VertexesIntended(_)
VertexesIntended(t) == Flat([i \in DOMAIN t.kids |->
                              (IF IsVertex(t.kids[i]) THEN <<t.kids[i]>> ELSE <<>>) \o VertexesIntended(t.kids[i])])
RECURSIVE AllTwoBody(_)
AllTwoBody(t) == t.kids = <<>> \/ (IsVertex(t) /\ \A i \in DOMAIN t.kids : AllTwoBody(t.kids[i]))

RECURSIVE Structure(_)
Structure(t) == IF t.kids = <<>> THEN [leaf |-> TRUE, n |-> t.pname, kids |-> <<>>]
                ELSE [leaf |-> FALSE, n |-> "-", kids |-> MapSeq(t.kids, Structure)]
RECURSIVE Leaves(_)
Leaves(t) == IF t.kids = <<>> THEN <<t.pname>> ELSE Flat(MapSeq(t.kids, Leaves))

\* str(): tokens; `tagged` = the class shows tags (AmplitudeChain) or not (ModelDecay)
RECURSIVE Str(_, _)
Str(t, tagged) ==
    LET tags == IF ~tagged THEN <<>>
                ELSE IF t.sf # "-" /\ t.ls.fam # "none" THEN <<"[", t.sf, ";", t.ls.tag, "]">>
                ELSE IF t.ls.fam # "none" THEN <<"[", t.ls.tag, "]">>
                ELSE IF t.sf # "-" THEN <<"[", t.sf, "]">> ELSE <<>>
        RECURSIVE join(_)
        join(ks) == IF ks = <<>> THEN <<>> ELSE IF Len(ks) = 1 THEN Str(ks[1], tagged)
                    ELSE Str(ks[1], tagged) \o <<",">> \o join(Tail(ks))
    IN <<t.pname>> \o tags \o (IF t.kids = <<>> THEN <<>> ELSE <<"{">> \o join(t.kids) \o <<"}">>)

\* full_amp: the product of the couplings of all nodes = the bag of their tokens
NoBag == [x \in {} |-> 0]
Cnt(b, x) == IF x \in DOMAIN b THEN b[x] ELSE 0
BagPlus(a, b) == [x \in (DOMAIN a) \cup (DOMAIN b) |-> Cnt(a, x) + Cnt(b, x)]
RECURSIVE FullAmp(_)
FullAmp(t) ==
    LET own == IF t.amp = "one" THEN NoBag ELSE [x \in {t.amp} |-> 1]
        RECURSIVE acc(_)
        acc(ks) == IF ks = <<>> THEN NoBag ELSE BagPlus(FullAmp(Head(ks)), acc(Tail(ks)))
    IN BagPlus(own, acc(t.kids))

----------------------------------------------------------------------------
(* the universes *)
VARIABLES x, tid, done
vars == <<x, tid, done>>

NoLs == [fam |-> "none", tag |-> "-"]
LsPool == {NoLs, [fam |-> "GSpline.EFF", tag |-> "t1"], [fam |-> "other", tag |-> "t2"], [fam |-> "kMatrix", tag |-> "t3"]}
Leaf(n) == [name |-> n, pname |-> n, twoJ |-> 0, sf |-> "-", ls |-> NoLs, amp |-> "one", kids |-> <<>>]
LeafPool == {Leaf("a"), Leaf("b"), Leaf("c")}
\* R1 (J = 1) -> a b ; R2 (J = 0) -> b c ; written inline (no coupling of its own) or on a line of its own
RNodes == {[name |-> r[1], pname |-> r[1], twoJ |-> r[2], sf |-> sf, ls |-> ls, amp |-> amp, kids |-> r[3]] :
             r \in {<<"R1", 2, <<Leaf("a"), Leaf("b")>> >>, <<"R2", 0, <<Leaf("b"), Leaf("c")>> >>},
             sf \in {"-", "P"}, ls \in LsPool \ {[fam |-> "kMatrix", tag |-> "t3"]}, amp \in {"one", "own"}}
\* R3 (J = 2) -> R. leaf
Cascades == {[name |-> "R3", pname |-> "R3", twoJ |-> 4, sf |-> sf, ls |-> ls, amp |-> amp, kids |-> <<r, l>>] :
               sf \in {"-", "D"}, ls \in {NoLs, [fam |-> "kMatrix", tag |-> "t3"]}, amp \in {"one", "own"},
               r \in {q \in RNodes : q.sf = "-"}, l \in LeafPool}
\* distinct coupling tokens: "own" becomes the node's position
RECURSIVE Stamp(_, _)
Stamp(t, path) == [t EXCEPT !.amp = IF t.amp = "own" THEN "k" \o path ELSE t.amp,
                            !.kids = [i \in DOMAIN t.kids |-> Stamp(t.kids[i], path \o ToString(i))]]
Roots ==
    {[name |-> "M", pname |-> "M", twoJ |-> 0, sf |-> sf, ls |-> NoLs, amp |-> "top", kids |-> <<k1, k2>>] :
        sf \in {"-", "S", "P", "D"}, k1 \in LeafPool \cup RNodes, k2 \in LeafPool \cup RNodes}
    \cup {[name |-> "M", pname |-> "M", twoJ |-> 0, sf |-> "-", ls |-> NoLs, amp |-> "top", kids |-> ks] :
        ks \in {<<cs, l>> : cs \in Cascades, l \in LeafPool} \cup {<<l, cs>> : cs \in Cascades, l \in LeafPool}}
\* trees only the API can build: any number of daughters (names only)
ApiNode(n, ks) == [name |-> n, pname |-> n, twoJ |-> 0, sf |-> "-", ls |-> NoLs, amp |-> "one", kids |-> ks]
V2 == ApiNode("R1", <<Leaf("a"), Leaf("b")>>)
V3 == ApiNode("R1", <<Leaf("a"), Leaf("a"), Leaf("b")>>)
ApiLevel1 == {ApiNode("R1", ks) : ks \in UNION {[1..n -> {Leaf("a"), Leaf("b")}] : n \in 2..3}}
ApiLevel2 == {ApiNode("R2", ks) : ks \in UNION {[1..n -> {Leaf("a"), V2, V3}] : n \in 2..3}}
ApiRoots == {ApiNode("M", ks) : ks \in [1..2 -> {Leaf("c"), V2} \cup ApiLevel2]}
            \cup {ApiNode("M", ks) : ks \in [1..3 -> {Leaf("c"), V2, ApiNode("R2", <<Leaf("a"), V2>>), ApiNode("R2", <<Leaf("a"), Leaf("a"), V2>>)}]}
            \cup {ApiNode("M", <<k, Leaf("c")>>) : k \in ApiLevel1}
Spins == {t \in (0..MaxTwoJ) \X (0..MaxTwoJ) \X (0..MaxTwoJ) : Physical(t[1], t[2], t[3])}

Cases == IF Mode = "trace" THEN JsonDeserialize(IOEnv.TRACE_FILE) ELSE <<>>

\* trees arrive from JSON with the same field names; amp bag as pairs
BagP(ps) == [y \in {ps[i][1] : i \in DOMAIN ps} |-> ps[CHOOSE i \in DOMAIN ps : ps[i][1] = y][2]]
Judge(t, k) ==
    LET tr == k.tree o == k.obs IN
    AllOf(<<
      ChkD(t, "G:str-shows-particle-tags-and-daughters", o.str = Str(tr, k.tagged), [exp |-> Str(tr, k.tagged), obs |-> o.str]),
      ChkD(t, "G:structure-is-the-nesting-of-the-final-state", o.structure = Structure(tr), [exp |-> Structure(tr), obs |-> o.structure]),
      ChkD(t, "G:vertexes-as-the-code-collects-them", o.vertexes = MapSeq(VertexesCode(tr), LAMBDA v : Str(v, k.tagged)),
           [exp |-> MapSeq(VertexesCode(tr), LAMBDA v : Str(v, k.tagged)), obs |-> o.vertexes]),
      AllTwoBody(tr) => ChkD(t, "G:vertexes-are-all-two-body-nodes-below",
                             o.vertexes = MapSeq(VertexesIntended(tr), LAMBDA v : Str(v, k.tagged)), [obs |-> o.vertexes]),
      ~k.tagged \/ ChkD(t, "G:full-amp-is-the-product-of-all-couplings", BagP(o.full_amp) = FullAmp(tr),
                        [exp |-> FullAmp(tr), obs |-> o.full_amp]),
      ~k.tagged \/ \A i \in DOMAIN o.nodes :
          LET n == o.nodes[i] v == (<<tr>> \o VertexesCode(tr))[i] IN
          AllOf(<< ChkD(t, "G:L-range-as-coded", n.lrange = LRangeCode(v.twoJ, v.kids[1].twoJ, v.kids[2].twoJ),
                        [node |-> v.name, exp |-> LRangeCode(v.twoJ, v.kids[1].twoJ, v.kids[2].twoJ), obs |-> n.lrange]),
                   ChkD(t, "G:L-is-the-tag-letter-or-the-lowest-value", n.L = LCode(v), [node |-> v.name, exp |-> LCode(v), obs |-> n.L]),
                   ChkD(t, "G:lineshape-family", n.lsenum = LsEnum(v), [node |-> v.name, exp |-> LsEnum(v), obs |-> n.lsenum]) >>) >>)
JudgeSpin(t, k) ==
    ChkD(t, "G:L-range-as-coded", k.obs = LRangeCode(k.spins[1], k.spins[2], k.spins[3]),
         [spins |-> k.spins, exp |-> LRangeCode(k.spins[1], k.spins[2], k.spins[3]), obs |-> k.obs])

Init ==
    /\ tid = 0 /\ done = FALSE
    /\ CASE Mode = "gen" -> x \in {Stamp(r, "") : r \in Roots}
         [] Mode = "api" -> x \in ApiRoots
         [] Mode = "spins" -> x \in Spins
         [] OTHER -> x = 0
Next ==
    IF Mode = "trace"
    THEN \/ /\ tid = 0 /\ tid' \in 1..Len(Cases) /\ UNCHANGED <<x, done>>
         \/ /\ tid > 0 /\ ~done /\ done' = TRUE /\ UNCHANGED <<x, tid>>
            /\ Verdict(tid, IF Cases[tid].kind = "spins" THEN JudgeSpin(tid, Cases[tid]) ELSE Judge(tid, Cases[tid]))
    ELSE /\ ~done /\ done' = TRUE /\ UNCHANGED <<x, tid>>
         /\ Emit("case", [kind |-> Mode, v |-> x])

----------------------------------------------------------------------------
(* lemmas and refutations *)
\* the code's range is the triangle rule whenever one of the three spins is zero ...
LRangeAgreesWithAZeroSpin ==
    Mode = "spins" => ((x[1] = 0 \/ x[2] = 0 \/ x[3] = 0) => LRangeCode(x[1], x[2], x[3]) = LRangeIntended(x[1], x[2], x[3]))
\* ... its upper end always is, and its lower end is never below the true one
LRangeUpperEnd == Mode = "spins" => LRangeCode(x[1], x[2], x[3])[2] = LRangeIntended(x[1], x[2], x[3])[2]
LRangeLowerEndNotBelow == Mode = "spins" => LRangeCode(x[1], x[2], x[3])[1] >= LRangeIntended(x[1], x[2], x[3])[1]
\* refuted on purpose: smallest spin triple with a wrong lower end
LRangeIsTriangleRule == Mode = "spins" => LRangeCode(x[1], x[2], x[3]) = LRangeIntended(x[1], x[2], x[3])
\* the two vertex collections agree on everything the AmpGen reader can produce (all nodes two-body)
VertexesAgreeOnTwoBodyTrees == Mode \in {"gen", "api"} => (AllTwoBody(x) => VertexesCode(x) = VertexesIntended(x))
\* refuted on purpose (Mode = "api"): a two-body vertex below a three-body node is not collected
VertexesAreAllVertexes == Mode = "api" => VertexesCode(x) = VertexesIntended(x)
\* str() lists the final state in the order of `structure`
StrLeavesAreStructureLeaves ==
    Mode \in {"gen", "api"} => SelectSeq(Str(x, TRUE), LAMBDA s : s \in {"a", "b", "c"}) = Leaves(x)
=============================================================================
