----------------------------- MODULE ChainTrace -----------------------------
(***************************************************************************)
(* Judge of observations recorded from the real DaughtersDict / DecayMode  *)
(* / DecayChain classes against Chain.tla (C11, C12, C13).                 *)
(*                                                                         *)
(* A case carries the abstract chain as JSON:                              *)
(*   c = [mother, decays = Seq([n, bf, meta, ds = Seq(<<name, count>>)])]  *)
(*   rank = record name -> canonical position (Python's sort order)        *)
(* and the projected observations of the property being judged.            *)
(***************************************************************************)
EXTENDS Chain, VerifIO, Json, IOUtils

Cases == JsonDeserialize(IOEnv.TRACE_FILE)
VARIABLES tid, done

BagP(ps) == [x \in {ps[i][1] : i \in DOMAIN ps} |-> ps[CHOOSE i \in DOMAIN ps : ps[i][1] = x][2]]
PairsDistinct(ps) == \A i, j \in DOMAIN ps : ps[i][1] = ps[j][1] => i = j

ChainOf(jc) ==
    [mother |-> jc.mother,
     decays |-> [n \in {jc.decays[i].n : i \in DOMAIN jc.decays} |->
                    LET d == jc.decays[CHOOSE i \in DOMAIN jc.decays : jc.decays[i].n = n]
                    IN [bf |-> d.bf, meta |-> d.meta, ds |-> BagP(d.ds)]]]

(* C12 *)
JudgeC12(t, k) ==
    LET c == ChainOf(k.c) S == RangeOf(k.S) o == k.obs IN
    IF ~Chk(t, "MACHINERY:well-formed-chain", WellFormed(c) /\ c.mother \notin S) THEN FALSE
    ELSE IF ~ChkD(t, "C12:flatten-succeeds", o.raised = "-", [error |-> o.raised]) THEN FALSE
    ELSE AllOf(<<
        ChkD(t, "C12:final-state-is-the-multiset-of-leaves", PairsDistinct(o.fs) /\ BagP(o.fs) = Leaves(c, S),
             [exp |-> Leaves(c, S), obs |-> o.fs]),
        ChkD(t, "C12:bf-is-the-product-over-every-decay-with-its-multiplicity",
             PairsDistinct(o.used) /\ BagP(o.used) = DecaysUsed(c, S), [exp |-> DecaysUsed(c, S), obs |-> o.used]),
        Chk(t, "C12:result-has-no-sub-decays", o.nsub = 0),
        Chk(t, "C12:float-bf-agrees-with-exact-product", o.float_ok),
        Chk(t, "C12:visible-bf-is-the-flattened-bf", o.visible_ok),
        Chk(t, "C12:result-independent-of-sub-decay-order", o.orders_same),
        Chk(t, "C12:top-level-model-information-kept", o.meta_kept),
        Chk(t, "C12:original-chain-unchanged", o.unchanged),
        Chk(t, "C12:the-same-object-flattened-again-answers-like-a-fresh-one", o.reuse_ok) >>)

(* C11: chain round trip *)
JudgeC11(t, k) ==
    LET c == ChainOf(k.c) o == k.obs rank == k.rank IN
    IF ~Chk(t, "MACHINERY:well-formed-chain", WellFormed(c)) THEN FALSE
    ELSE IF ~ChkD(t, "C11:to-dict-and-from-dict-succeed", o.raised = "-", [error |-> o.raised]) THEN FALSE
    ELSE AllOf(<<
        ChkD(t, "C11:dictionary-form-unfolds-every-decaying-daughter-per-position",
             o.dict = ToDict(c, rank), [exp |-> ToDict(c, rank), obs |-> o.dict]),
        ChkD(t, "MACHINERY:spec-round-trip", FromDict(ToDict(c, rank)) = [ok |-> TRUE, chain |-> c], [c |-> c]),
        ChkD(t, "C11:dictionary-and-back-equals-the-original",
             ChainOf(o.back) = c, [exp |-> c, obs |-> o.back]),
        Chk(t, "C11:second-dictionary-equals-the-first", o.dict2_same),
        Chk(t, "C11:each-mode-round-trips-with-its-metadata", o.modes_ok) >>)

(* C11: malformed dictionaries are refused, well-formed ones accepted *)
JudgeC11D(t, k) ==
    LET want == FromDict(k.d) IN
    IF ~want.ok THEN Chk(t, "C11:several-modes-or-conflicting-repeats-rejected", k.obs.rejected)
    ELSE AllOf(<< ChkD(t, "C11:consistent-dictionary-accepted", ~k.obs.rejected, [error |-> k.obs.raised]),
                  k.obs.rejected \/ ChkD(t, "C11:dictionary-read-into-the-chain-it-states", ChainOf(k.obs.back) = want.chain,
                                         [exp |-> want.chain, obs |-> k.obs.back]) >>)

(* C11: final states built four ways *)
JudgeC11F(t, k) ==
    LET want == BagP(k.fs) o == k.obs IN AllOf(<<
        ChkD(t, "C11:final-state-from-string-list-mapping-ids-is-the-same-multiset",
             \A i \in DOMAIN o.forms : PairsDistinct(o.forms[i]) /\ BagP(o.forms[i]) = want,
             [exp |-> want, obs |-> o.forms]),
        ChkD(t, "C11:daughters-reported-in-one-canonical-order",
             \A i \in DOMAIN o.lists : o.lists[i] = SortedSeq(want, k.rank), [exp |-> SortedSeq(want, k.rank), obs |-> o.lists]),
        ChkD(t, "C11:length-counts-multiplicities", \A i \in DOMAIN o.lens : o.lens[i] = BagCard(want), [obs |-> o.lens]) >>)

(* C13 *)
JudgeC13(t, k) ==
    LET c == ChainOf(k.c) o == k.obs want == CanonTree(TreeOf(c, c.mother)) IN
    IF ~Chk(t, "MACHINERY:well-formed-chain", WellFormed(c)) THEN FALSE
    ELSE AllOf(<<
        ChkD(t, "C13:descriptor-reads-back-uniquely", \A i \in DOMAIN o.reads : o.reads[i].nparses = 1,
             [obs |-> MapSeq(o.reads, LAMBDA r : <<r.pat, r.nparses, r.string>>)]),
        \A i \in DOMAIN o.reads : o.reads[i].nparses = 1 =>
            ChkD(t, "C13:read-back-tree-is-the-chain", CanonTree(o.reads[i].tree) = want,
                 [pat |-> o.reads[i].pat, string |-> o.reads[i].string]),
        Chk(t, "C13:same-string-for-every-input-order", o.orders_same) >>)

Judge(t, k) ==
    CASE k.prop = "C12" -> JudgeC12(t, k)
      [] k.prop = "C11" -> JudgeC11(t, k)
      [] k.prop = "C11D" -> JudgeC11D(t, k)
      [] k.prop = "C11F" -> JudgeC11F(t, k)
      [] k.prop = "C13" -> JudgeC13(t, k)
      [] OTHER -> Chk(t, "MACHINERY:unknown-prop", FALSE)

Init == tid = 0 /\ done = FALSE
Next ==
    \/ /\ tid = 0 /\ tid' \in 1..Len(Cases) /\ done' = FALSE
    \/ /\ tid > 0 /\ ~done /\ Verdict(tid, Judge(tid, Cases[tid])) /\ done' = TRUE /\ tid' = tid
=============================================================================
