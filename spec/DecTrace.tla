------------------------------ MODULE DecTrace ------------------------------
(***************************************************************************)
(* Validation of observations recorded from the real DecFileParser against *)
(* the statement-level specification DecParse.tla (direction C -> S, and   *)
(* the judge of the replayed TLC-generated files as well).                 *)
(*                                                                         *)
(* The trace file (env TRACE_FILE) is a JSON array of cases.  A case has   *)
(*   prop   the property whose clauses are to be judged                    *)
(*   src    the abstract file (DecParse statement records)                 *)
(*   base   the PDG conjugation relation restricted to the names used      *)
(*   obs    projection of the parser's public answers after parse():       *)
(*            fails, mothers, ndecays,                                     *)
(*            tables = Seq([m, lines, nrows, nphotos, nmodes]),            *)
(*            line = [bf, ds, lm, ph ("T"|"F"|"na"), mn, ps]               *)
(*   further observations per property (off, nocd, obsx, xsrc, ...)        *)
(* Every clause is named; a failing clause prints FAIL tid clause diag.    *)
(* Clauses whose name starts with "MACHINERY" are checks of the harness    *)
(* itself (exit 2), never violations.                                      *)
(***************************************************************************)
EXTENDS DecParse, DecQuery, VerifIO, Json, IOUtils

Cases == JsonDeserialize(IOEnv.TRACE_FILE)

VARIABLES tid, done
tvars == <<tid, done>>

----------------------------------------------------------------------------
(* projections of specification tables to the observed shape *)

PhStr(b) == IF b THEN "T" ELSE "F"
ObsLineEq(o, e) ==     \* observed line o equals specification line e
    /\ o.bf = e.bf /\ o.ds = e.ds /\ o.lm = e.ds /\ o.mn = e.mn /\ o.ps = e.ps
    /\ o.ph \in {"na", PhStr(e.ph)}
ObsHas(obs, n) == \E i \in DOMAIN obs.tables : obs.tables[i].m = n
ObsTable(obs, n) == obs.tables[MinOf({i \in DOMAIN obs.tables : obs.tables[i].m = n})]
ObsNoDup(obs) == \A i, j \in DOMAIN obs.mothers : obs.mothers[i] = obs.mothers[j] => i = j
ObsNames(obs) == RangeOf(obs.mothers)
\* line content without the API-specific extras
Core(o) == [bf |-> o.bf, ds |-> o.ds, ph |-> o.ph, mn |-> o.mn, ps |-> o.ps]
CoreLines(t) == MapSeq(t.lines, LAMBDA o : Core(o))
NPhotos(lines) == Cardinality({j \in DOMAIN lines : lines[j].ph})

----------------------------------------------------------------------------
(* C01 *)

ExpC01(src) ==
    MapSeq(FirstBlocks(src), LAMBDA t : [m |-> t.m, lines |-> MapSeq(t.lines, LAMBDA ln : ExpandLine(src, ln))])

JudgeC01(t, c) ==
    LET src == c.src
        obs == c.obs
        exp == ExpC01(src)
        n == Len(exp)
    IN IF ParseFails(src) THEN TRUE      \* not a well-formed text in the sense of C01
       ELSE IF ~Chk(t, "C01:well-formed-text-accepted", ~obs.fails) THEN FALSE
       ELSE AllOf(<<
         ChkD(t, "C01:one-table-per-mother-in-file-order",
              Len(obs.mothers) >= n /\ SubSeq(obs.mothers, 1, n) = Mothers(exp),
              [exp |-> Mothers(exp), obs |-> obs.mothers]),
         Chk(t, "C01:number-of-decays", obs.ndecays = Len(obs.mothers) /\ Len(obs.tables) = Len(obs.mothers)),
         \A i \in 1..n : i <= Len(obs.tables) =>
            LET ot == obs.tables[i] el == exp[i].lines IN
            AllOf(<<
              ChkD(t, "C01:every-line-once", Len(ot.lines) = Len(el) /\ ot.nmodes = Len(el) /\ ot.nrows = Len(el),
                   [m |-> exp[i].m, exp |-> Len(el), obs |-> <<Len(ot.lines), ot.nmodes, ot.nrows>>]),
              ChkD(t, "C01:photos-flag-count", ot.nphotos = NPhotos(el), [m |-> exp[i].m, obs |-> ot.nphotos]),
              \A j \in DOMAIN el : j <= Len(ot.lines) =>
                 LET o == ot.lines[j] e == el[j] IN
                 AllOf(<<
                   ChkD(t, "C01:branching-fraction", o.bf = e.bf, [exp |-> e.bf, obs |-> o.bf]),
                   ChkD(t, "C01:daughters-verbatim-in-order", o.ds = e.ds /\ o.lm = e.ds, [exp |-> e.ds, obs |-> o.ds, lm |-> o.lm]),
                   ChkD(t, "C01:photos-flag", o.ph \in {"na", PhStr(e.ph)}, [exp |-> e.ph, obs |-> o.ph]),
                   ChkD(t, "C01:model-name", o.mn = e.mn, [exp |-> e.mn, obs |-> o.mn]),
                   ChkD(t, "C01:model-parameters", o.ps = e.ps, [exp |-> e.ps, obs |-> o.ps]) >>) >>) >>)

----------------------------------------------------------------------------
(* C05: c.obs = parse of src, c.obsx = parse of the rendered c.xsrc *)

SpecCoreMap(ts) ==
    [n \in RangeOf(Mothers(ts)) |->
        MapSeq(TableOf(ts, n).lines, LAMBDA e : [mn |-> e.mn, ps |-> e.ps])]
ObsCoreMap(obs) ==
    [n \in ObsNames(obs) |-> MapSeq(ObsTable(obs, n).lines, LAMBDA o : [mn |-> o.mn, ps |-> o.ps])]
ObsFullMap(obs) == [n \in ObsNames(obs) |-> CoreLines(ObsTable(obs, n))]

JudgeC05(t, c) ==
    LET src == c.src obs == c.obs obsx == c.obsx IN
    IF ~ChkD(t, "MACHINERY:expansion-computed-by-harness-is-ExpandDefs", c.xsrc = ExpandDefs(src),
             [exp |-> ExpandDefs(src)]) THEN FALSE
    ELSE IF ParseFails(src) THEN TRUE    \* undefined ModelAlias: outside C05 (judged under C06)
    ELSE IF ~Chk(t, "C05:both-texts-accepted", ~obs.fails /\ ~obsx.fails) THEN FALSE
    ELSE AllOf(<<
        Chk(t, "MACHINERY:expanded-file-is-expanded", IsExpanded(c.xsrc)),
        ChkD(t, "C05:same-tables-as-expanded-text", ObsFullMap(obs) = ObsFullMap(obsx),
             [obs |-> obs.mothers, obsx |-> obsx.mothers]),
        ChkD(t, "C05:same-mother-list-as-expanded-text", obs.mothers = obsx.mothers,
             [obs |-> obs.mothers, obsx |-> obsx.mothers]),
        \* the expansion itself: last definition wins, sign handling, other words verbatim -
        \* in Decay, copied and conjugated tables alike
        LET sm == SpecCoreMap(Parsed(src, c.base, TRUE)) om == ObsCoreMap(obs) IN
        \A n \in (DOMAIN sm) \cap (DOMAIN om) :
            ChkD(t, "C05:model-and-parameters-are-the-expansion", om[n] = sm[n],
                 [m |-> n, exp |-> sm[n], obs |-> om[n]]) >>)

----------------------------------------------------------------------------
(* C03: c.on / c.off = parse with / without charge-conjugate decays,        *)
(*      c.nocd = parse of the file with the CDecay statements removed       *)

ConjTargetsObs(src, base, off) ==
    {x \in CDecayNames(src) : ~ObsHas(off, x) /\ ObsHas(off, ConjOf(src, base, x))}

JudgeC03(t, c) ==
    LET src == c.src base == c.base on == c.on off == c.off nocd == c.nocd
        targets == ConjTargetsObs(src, base, off)
    IN
    IF ParseFails(src) THEN TRUE
    ELSE IF ~Chk(t, "C03:texts-accepted", ~on.fails /\ ~off.fails /\ ~nocd.fails) THEN FALSE
    ELSE AllOf(<<
        ChkD(t, "C03:disabled-adds-no-table", ObsFullMap(off) = ObsFullMap(nocd) /\ off.mothers = nocd.mothers,
             [off |-> off.mothers, nocd |-> nocd.mothers]),
        ChkD(t, "C03:no-duplicate-tables", ObsNoDup(on), [on |-> on.mothers]),
        ChkD(t, "C03:tables-added-exactly-for-cdecay-with-source",
             ObsNames(on) = ObsNames(off) \cup targets,
             [on |-> on.mothers, off |-> off.mothers, targets |-> targets]),
        \A n \in ObsNames(off) : ObsHas(on, n) =>
            ChkD(t, "C03:source-and-other-tables-untouched", CoreLines(ObsTable(on, n)) = CoreLines(ObsTable(off, n)),
                 [m |-> n]),
        \A x \in targets : ObsHas(on, x) =>
            LET s == ObsTable(off, ConjOf(src, base, x)).lines
                d == ObsTable(on, x).lines
            IN AllOf(<<
                ChkD(t, "C03:same-lines-same-order", Len(d) = Len(s), [x |-> x, exp |-> Len(s), obs |-> Len(d)]),
                \A j \in DOMAIN s : j <= Len(d) => AllOf(<<
                    ChkD(t, "C03:bf-photos-model-parameters-identical",
                         d[j].bf = s[j].bf /\ d[j].ph = s[j].ph /\ d[j].mn = s[j].mn /\ d[j].ps = s[j].ps,
                         [x |-> x, line |-> j, exp |-> Core(s[j]), obs |-> Core(d[j])]),
                    ChkD(t, "C03:every-daughter-conjugated",
                         d[j].ds = MapSeq(s[j].ds, LAMBDA q : ConjOf(src, base, q)) /\ d[j].lm = d[j].ds,
                         [x |-> x, line |-> j, src |-> s[j].ds, obs |-> d[j].ds]) >>) >>) >>)

----------------------------------------------------------------------------
(* C08 (copy clause): CopyDecay NEW OLD gives NEW a table equal to OLD's in everything but the mother,
   for every CopyDecay statement (several copies of one source included); c.obs = parse of src *)
CopyPairs(src) ==
    LET ks == CopyKeys(src) IN {<<ks[i], LastDef(src, "CopyDecay", ks[i]).src>> : i \in DOMAIN ks}
JudgeC08C(t, c) ==
    LET src == c.src obs == c.obs first == FirstBlocks(src) IN
    IF ParseFails(src) THEN TRUE
    ELSE IF ~Chk(t, "C08:text-accepted", ~obs.fails) THEN FALSE
    ELSE AllOf(<<
        ChkD(t, "C08:every-table-listed-once", ObsNoDup(obs), [mothers |-> obs.mothers]),
        \A pr \in CopyPairs(src) :
            IF HasTable(first, pr[2]) /\ ~HasTable(first, pr[1])
            THEN AllOf(<<
                ChkD(t, "C08:copy-has-a-table", ObsHas(obs, pr[1]), [new |-> pr[1], old |-> pr[2], mothers |-> obs.mothers]),
                ObsHas(obs, pr[1]) /\ ObsHas(obs, pr[2]) =>
                    ChkD(t, "C08:copy-equals-source-but-for-the-mother",
                         CoreLines(ObsTable(obs, pr[1])) = CoreLines(ObsTable(obs, pr[2])), [new |-> pr[1], old |-> pr[2]]) >>)
            ELSE HasTable(first, pr[1]) \/
                 ChkD(t, "C08:copy-without-source-adds-nothing", ~ObsHas(obs, pr[1]) \/ pr[1] \in CDecayNames(src),
                      [new |-> pr[1], old |-> pr[2]]) >>)

----------------------------------------------------------------------------
Judge(t, c) ==
    CASE c.prop = "C01" -> JudgeC01(t, c)
      [] c.prop = "C03" -> JudgeC03(t, c)
      [] c.prop = "C05" -> JudgeC05(t, c)
      [] c.prop = "C08C" -> JudgeC08C(t, c)
      [] c.prop = "C09" -> JudgeC09(t, c)
      [] c.prop = "C10" -> JudgeC10(t, c)
      [] OTHER -> Chk(t, "MACHINERY:unknown-prop", FALSE)

Init == tid = 0 /\ done = FALSE
Next ==
    \/ /\ tid = 0
       /\ tid' \in 1..Len(Cases)
       /\ done' = FALSE
    \/ /\ tid > 0 /\ ~done
       /\ Verdict(tid, Judge(tid, Cases[tid]))
       /\ done' = TRUE /\ tid' = tid
=============================================================================
