------------------------------- MODULE Chain -------------------------------
(***************************************************************************)
(* Single decay chains (decaylanguage.decay: DaughtersDict, DecayMode,     *)
(* DecayChain) in their three forms - class, dictionary, descriptor - and  *)
(* the operators the properties C11, C12, C13 speak about.                 *)
(*                                                                         *)
(* A chain is [mother, decays] with decays a function from the decaying    *)
(* particle names to modes [bf, meta, ds]; ds is the daughter *bag*        *)
(* (a function name -> positive count).  bf and meta are opaque tokens.    *)
(* rank is a function name -> Nat giving the canonical (sorted) order of   *)
(* names; the harness chooses concrete names whose Python sort order is    *)
(* this rank (S -> C) or reports the rank of the real names (C -> S).      *)
(***************************************************************************)
EXTENDS Naturals, Sequences, FiniteSets, TLC, SequencesExt

RangeOf(s) == {s[i] : i \in DOMAIN s}
MapSeq(s, F(_)) == [i \in DOMAIN s |-> F(s[i])]

----------------------------------------------------------------------------
(* bags as functions name -> count (only positive counts are stored) *)
NoBag == [x \in {} |-> 0]
Cnt(b, x) == IF x \in DOMAIN b THEN b[x] ELSE 0
BagPlus(a, b) == [x \in (DOMAIN a) \cup (DOMAIN b) |-> Cnt(a, x) + Cnt(b, x)]
BagTimes(n, b) == [x \in {y \in DOMAIN b : n > 0} |-> n * b[x]]
BagRemoveAll(b, x) == [y \in (DOMAIN b) \ {x} |-> b[y]]
RECURSIVE SumOver(_, _)
SumOver(b, D) == IF D = {} THEN 0 ELSE LET x == CHOOSE y \in D : TRUE IN b[x] + SumOver(b, D \ {x})
BagCard(b) == SumOver(b, DOMAIN b)
BagOfSeq(s) == [x \in RangeOf(s) |-> Cardinality({i \in DOMAIN s : s[i] = x})]
\* a bag written out in canonical order (rank ascending, repeats adjacent)
RECURSIVE Repeat(_, _)
Repeat(x, n) == IF n = 0 THEN <<>> ELSE <<x>> \o Repeat(x, n - 1)
RECURSIVE Flat(_)
Flat(ss) == IF ss = <<>> THEN <<>> ELSE Head(ss) \o Flat(Tail(ss))
SortedSeq(b, rank) ==
    LET names == SetToSortSeq(DOMAIN b, LAMBDA x, y : rank[x] < rank[y])
    IN Flat([i \in DOMAIN names |-> Repeat(names[i], b[names[i]])])

----------------------------------------------------------------------------
(* structure *)
Decaying(c) == DOMAIN c.decays
Kids(c, n) == DOMAIN c.decays[n].ds

RECURSIVE ReachFrom(_, _, _)
ReachFrom(c, front, k) ==
    IF k = 0 \/ front = {} THEN front
    ELSE front \cup ReachFrom(c, UNION {Kids(c, n) \cap Decaying(c) : n \in front \cap Decaying(c)}, k - 1)
Below(c, n) == ReachFrom(c, Kids(c, n) \cap Decaying(c), Cardinality(Decaying(c)))
Acyclic(c) == \A n \in Decaying(c) : n \notin Below(c, n)
AllUsed(c) == Decaying(c) \subseteq ({c.mother} \cup Below(c, c.mother))
WellFormed(c) == c.mother \in Decaying(c) /\ Acyclic(c) /\ AllUsed(c)

----------------------------------------------------------------------------
(* C12: what flattening must produce.  S = particles kept stable *)
Expands(c, S, n) == n \in Decaying(c) /\ n \notin S

\* leaves of the decay tree below one occurrence of n (a bag)
RECURSIVE LeavesOf(_, _, _)
LeavesOf(c, S, n) ==
    IF ~Expands(c, S, n) THEN [x \in {n} |-> 1]
    ELSE LET ds == c.decays[n].ds
             RECURSIVE acc(_)
             acc(D) == IF D = {} THEN NoBag
                       ELSE LET x == CHOOSE y \in D : TRUE
                            IN BagPlus(BagTimes(ds[x], LeavesOf(c, S, x)), acc(D \ {x}))
         IN acc(DOMAIN ds)
Leaves(c, S) == LeavesOf(c, S \ {c.mother}, c.mother)

\* how often each decay occurs in the tree (the visible bf is the product of
\* bf(n) ^ Used(n) over this bag)
RECURSIVE UsedOf(_, _, _)
UsedOf(c, S, n) ==
    IF ~Expands(c, S, n) THEN NoBag
    ELSE LET ds == c.decays[n].ds
             RECURSIVE acc(_)
             acc(D) == IF D = {} THEN NoBag
                       ELSE LET x == CHOOSE y \in D : TRUE
                            IN BagPlus(BagTimes(ds[x], UsedOf(c, S, x)), acc(D \ {x}))
         IN BagPlus([x \in {n} |-> 1], acc(DOMAIN ds))
DecaysUsed(c, S) == UsedOf(c, S \ {c.mother}, c.mother)

----------------------------------------------------------------------------
(* C11: the dictionary form.  entries = <<[bf, meta, fs]>> with fs the daughters in
   canonical order, each replaced *per position* by its own entries if it decays *)
RECURSIVE DictEntries(_, _, _)
DictEntries(c, rank, n) ==
    << [bf |-> c.decays[n].bf, meta |-> c.decays[n].meta,
        fs |-> MapSeq(SortedSeq(c.decays[n].ds, rank), LAMBDA d :
                  IF d \in Decaying(c) THEN [n |-> d, dec |-> TRUE, sub |-> DictEntries(c, rank, d)]
                  ELSE [n |-> d, dec |-> FALSE, sub |-> <<>>])] >>
ToDict(c, rank) == [m |-> c.mother, entries |-> DictEntries(c, rank, c.mother)]

\* reading a dictionary back: [ok, chain]; ok = FALSE (rejected) for several modes for one
\* particle, or two occurrences of a particle decaying differently
RECURSIVE ModesIn(_, _)
ModesIn(m, entries) ==   \* set of <<name, mode>> pairs found below
    UNION { {<<m, [bf |-> entries[i].bf, meta |-> entries[i].meta,
                   ds |-> BagOfSeq(MapSeq(entries[i].fs, LAMBDA k : k.n))]>>}
            \cup UNION {ModesIn(entries[i].fs[q].n, entries[i].fs[q].sub) :
                          q \in {q \in DOMAIN entries[i].fs : entries[i].fs[q].dec}}
            : i \in DOMAIN entries }
RECURSIVE SingleEntries(_)
SingleEntries(entries) ==
    /\ Len(entries) = 1
    /\ \A q \in DOMAIN entries[1].fs : entries[1].fs[q].dec => SingleEntries(entries[1].fs[q].sub)
FromDict(d) ==
    LET pairs == ModesIn(d.m, d.entries)
        names == {p[1] : p \in pairs}
    IN IF ~SingleEntries(d.entries) \/ \E p, q \in pairs : p[1] = q[1] /\ p[2] # q[2]
       THEN [ok |-> FALSE, chain |-> [mother |-> d.m, decays |-> <<>>]]
       ELSE [ok |-> TRUE,
             chain |-> [mother |-> d.m, decays |-> [n \in names |-> (CHOOSE p \in pairs : p[1] = n)[2]]]]

\* C13: the tree a descriptor must determine ([m, leaf, kids], order-insensitive via CanonTree)
RECURSIVE TreeOf(_, _)
TreeOf(c, n) ==
    IF n \notin Decaying(c) THEN [m |-> n, leaf |-> TRUE, kids |-> <<>>]
    ELSE [m |-> n, leaf |-> FALSE,
          kids |-> LET names == SetToSeq(DOMAIN c.decays[n].ds)
                   IN Flat([i \in DOMAIN names |-> Repeat(TreeOf(c, names[i]), c.decays[n].ds[names[i]])])]
RECURSIVE CanonTree(_)
CanonTree(t) == [m |-> t.m, leaf |-> t.leaf, kids |-> BagOfSeq(MapSeq(t.kids, LAMBDA k : CanonTree(k)))]
=============================================================================
