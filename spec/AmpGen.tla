------------------------------- MODULE AmpGen -------------------------------
(***************************************************************************)
(* Reading an AmpGen options text (C17) and the permutation structure of   *)
(* an amplitude (C18).                                                     *)
(*                                                                         *)
(* Abstract file:                                                          *)
(*   event   Seq(name)            EventType: mother first                  *)
(*   lines   Seq([tree, c1, c2])  complex decay lines, in file order;      *)
(*             tree = [name, sf, ls, kids] (kids = <<>> or two trees),     *)
(*             sf / ls = "-" when no tag is written                        *)
(*             c = [fix, v, e]: flag (0 free, >0 fixed), value, error      *)
(*   vars    Seq([name, fix, v, e])   parameter lines                      *)
(*   consts  Seq([name, v])           constant lines                       *)
(*   cart    "absent" | "0" | "1"     FastCoherentSum::UseCartesian        *)
(* Values are opaque tokens; the harness does the arithmetic.              *)
(***************************************************************************)
EXTENDS Naturals, Sequences, FiniteSets, TLC, SequencesExt, VerifIO, Json, IOUtils

CONSTANTS Mode, MaxLines

RangeOf(s) == {s[i] : i \in DOMAIN s}
MapSeq(s, F(_)) == [i \in DOMAIN s |-> F(s[i])]
RECURSIVE Flat(_)
Flat(ss) == IF ss = <<>> THEN <<>> ELSE Head(ss) \o Flat(Tail(ss))

\* cartesian product of a sequence of sequences, first component varying slowest
RECURSIVE SeqProduct(_)
SeqProduct(ss) ==
    IF ss = <<>> THEN << <<>> >>
    ELSE LET rest == SeqProduct(Tail(ss))
         IN Flat([i \in DOMAIN Head(ss) |-> [j \in DOMAIN rest |-> <<Head(ss)[i]>> \o rest[j]]])

\* a daughter written without its own decay is replaced by every decay line given
\* separately for that name (recursively); a tree with daughters expands to the product
RECURSIVE ExpandTree(_, _)
ExpandTree(t, lines) ==
    IF t.kids # <<>>
    THEN MapSeq(SeqProduct(MapSeq(t.kids, LAMBDA k : ExpandTree(k, lines))), LAMBDA ks : [t EXCEPT !.kids = ks])
    ELSE LET subs == Flat([i \in DOMAIN lines |->
                            IF lines[i].tree.name = t.name THEN ExpandTree(lines[i].tree, lines) ELSE <<>>])
         IN IF subs # <<>> THEN subs ELSE <<t>>

\* one amplitude per complete decay line of the event-type mother, in file order
Amplitudes(f) ==
    Flat([i \in DOMAIN f.lines |->
            IF f.lines[i].tree.name = f.event[1]
            THEN MapSeq(ExpandTree(f.lines[i].tree, f.lines), LAMBDA t : [tree |-> t, src |-> i])
            ELSE <<>>])

\* the counting recursion: sum over the mother's lines of the product over daughters
RECURSIVE NTree(_, _)
NTree(t, lines) ==
    IF t.kids # <<>> THEN NTree(t.kids[1], lines) * NTree(t.kids[2], lines)
    ELSE LET idx == {i \in DOMAIN lines : lines[i].tree.name = t.name}
             RECURSIVE S(_)
             S(D) == IF D = {} THEN 0 ELSE LET x == CHOOSE y \in D : TRUE IN NTree(lines[x].tree, lines) + S(D \ {x})
         IN IF idx = {} THEN 1 ELSE S(idx)
NAmp(f) ==
    LET idx == {i \in DOMAIN f.lines : f.lines[i].tree.name = f.event[1]}
        RECURSIVE S(_)
        S(D) == IF D = {} THEN 0 ELSE LET x == CHOOSE y \in D : TRUE IN NTree(f.lines[x].tree, f.lines) + S(D \ {x})
    IN S(idx)

CouplingKind(f) == IF f.cart = "1" THEN "cart" ELSE "polar"
\* named deviation (the stored reference output enshrines it; no property speaks about it):
\* the amplitude's `fix` is true unless *both* flags are > 0
FixOfLine(ln) == ~(ln.c1.fix > 0 /\ ln.c2.fix > 0)

\* the names below a name must not lead back to it (otherwise expansion does not terminate)
RECURSIVE LeafNamesR(_)
LeafNamesR(t) == IF t.kids = <<>> THEN {t.name} ELSE LeafNamesR(t.kids[1]) \cup LeafNamesR(t.kids[2])
RECURSIVE ReachNames(_, _, _)
ReachNames(lines, front, k) ==
    IF k = 0 \/ front = {} THEN front
    ELSE front \cup ReachNames(lines, UNION {LeafNamesR(lines[i].tree) : i \in {i \in DOMAIN lines : lines[i].tree.name \in front}}, k - 1)
AcyclicLines(lines) ==
    \A i \in DOMAIN lines :
        lines[i].tree.name \notin ReachNames(lines, LeafNamesR(lines[i].tree) \ {"#"}, Len(lines))
        \/ lines[i].tree.kids = <<>>

----------------------------------------------------------------------------
(* C18: the Bose-symmetrised permutations of an amplitude *)
RECURSIVE LeafSeq(_)
LeafSeq(t) == IF t.kids = <<>> THEN <<t.name>> ELSE LeafSeq(t.kids[1]) \o LeafSeq(t.kids[2])
\* all one-to-one assignments of the amplitude's final-state particles (in tree order) to
\* positions of identical particles in the event type (finals = event without the mother)
Perms(t, finals) ==
    LET leaves == LeafSeq(t)
    IN {p \in [DOMAIN leaves -> DOMAIN finals] :
            /\ \A i \in DOMAIN leaves : finals[p[i]] = leaves[i]
            /\ \A i, j \in DOMAIN leaves : i # j => p[i] # p[j]}

----------------------------------------------------------------------------
(* generation: partial lines over an event type with a repeated particle *)
T(n, sf, ls, kids) == [name |-> n, sf |-> sf, ls |-> ls, kids |-> kids]
Lf(n) == T(n, "-", "-", <<>>)
C(f, v) == [fix |-> f, v |-> v, e |-> "e"]
LinePool ==
    << [tree |-> T("M", "-", "-", <<Lf("R1"), Lf("R2")>>), c1 |-> C(2, "v1"), c2 |-> C(2, "v0")],
       [tree |-> T("M", "D", "-", <<T("R1", "-", "-", <<Lf("a"), Lf("b")>>), Lf("R2")>>), c1 |-> C(0, "v2"), c2 |-> C(0, "v3")],
       [tree |-> T("M", "-", "-", <<Lf("R3"), Lf("b")>>), c1 |-> C(0, "v4"), c2 |-> C(2, "v5")],
       [tree |-> T("R1", "-", "-", <<Lf("a"), Lf("b")>>), c1 |-> C(2, "v1"), c2 |-> C(2, "v0")],
       [tree |-> T("R1", "-", "ls1", <<Lf("a"), Lf("b")>>), c1 |-> C(0, "v6"), c2 |-> C(0, "v7")],
       [tree |-> T("R2", "-", "ls2", <<Lf("b"), Lf("c")>>), c1 |-> C(0, "v8"), c2 |-> C(0, "v9")],
       [tree |-> T("R3", "-", "ls3", <<Lf("R1"), Lf("c")>>), c1 |-> C(0, "v2"), c2 |-> C(0, "v3")],
       [tree |-> T("R3", "D", "ls3", <<T("R2", "-", "-", <<Lf("b"), Lf("c")>>), Lf("a")>>), c1 |-> C(2, "v1"), c2 |-> C(2, "v0")] >>
Event == <<"M", "a", "b", "b", "c">>

VARIABLES file, tid, done
vars == <<file, tid, done>>

Injective(s) == \A i, j \in DOMAIN s : s[i] = s[j] => i = j
GenFiles ==
    {[event |-> Event, lines |-> MapSeq(idx, LAMBDA i : LinePool[i]), vars |-> <<>>, consts |-> <<>>, cart |-> ct] :
        idx \in {s \in UNION {[1..n -> DOMAIN LinePool] : n \in 1..MaxLines} : Injective(s)},
        ct \in {"absent", "0", "1"}}

CountIsSumOfProducts == Mode = "gen" => Len(Amplitudes(file)) = NAmp(file)
\* every amplitude is a complete tree of the mother carrying the tags written on the lines used
AmplitudesAreComplete ==
    Mode = "gen" => \A i \in DOMAIN Amplitudes(file) :
        LET t == Amplitudes(file)[i].tree IN
        /\ t.name = file.event[1]
        /\ \A n \in LeafNamesR(t) : ~\E j \in DOMAIN file.lines : file.lines[j].tree.name = n
\* reachability companion (expected to be violated): products of alternatives occur
NoProducts == ~(Mode = "gen" /\ Len(Amplitudes(file)) >= 3)

----------------------------------------------------------------------------
(* judging C17: case = [file, obs = [event, amps = Seq([tree, fits (coupling kinds the observed complex
   number is consistent with), fix]), vars, consts, raised]] *)
Cases == IF Mode = "trace" THEN JsonDeserialize(IOEnv.TRACE_FILE) ELSE <<>>

JudgeC17(t, k) ==
    LET f == k.file o == k.obs want == Amplitudes(f) IN
    IF ~Chk(t, "MACHINERY:acyclic-lines", AcyclicLines(f.lines)) THEN FALSE
    ELSE IF ~ChkD(t, "C17:every-text-of-the-grammar-is-read-without-internal-error", o.raised = "-", [error |-> o.raised]) THEN FALSE
    ELSE AllOf(<<
        ChkD(t, "C17:event-type-particles-in-order", o.event = f.event, [exp |-> f.event, obs |-> o.event]),
        ChkD(t, "C17:one-amplitude-per-complete-line-full-expansion", Len(o.amps) = Len(want),
             [exp |-> Len(want), obs |-> Len(o.amps), count |-> NAmp(f)]),
        \A i \in DOMAIN want : i <= Len(o.amps) => AllOf(<<
            ChkD(t, "C17:amplitude-tree-spin-and-lineshape-tags-as-written-in-file-order",
                 o.amps[i].tree = want[i].tree, [i |-> i, exp |-> want[i].tree, obs |-> o.amps[i].tree]),
            ChkD(t, "C17:coupling-is-polar-or-cartesian-as-the-option-says",
                 CouplingKind(f) \in RangeOf(o.amps[i].fits),
                 [i |-> i, kind |-> CouplingKind(f), fits |-> o.amps[i].fits, line |-> want[i].src]) >>),
        ChkD(t, "C17:parameter-table-one-row-per-line",
             o.vars = MapSeq(f.vars, LAMBDA v : [name |-> v.name, fixed |-> v.fix > 0, v |-> v.v, e |-> v.e]),
             [obs |-> o.vars]),
        ChkD(t, "C17:constants-table-one-row-per-line", o.consts = f.consts, [obs |-> o.consts]) >>)

\* C18 (permutation sets): case = [tree, finals, obs = [perms (Seq of Seq of 1-based positions), raised]]
RECURSIVE LeavesOfTree(_)
LeavesOfTree(tr) == IF tr.kids = <<>> THEN {tr.name} ELSE UNION {LeavesOfTree(tr.kids[i]) : i \in DOMAIN tr.kids}
JudgeC18P(t, k) ==
    LET want == Perms(k.tree, k.finals)
        got == {[i \in DOMAIN k.obs.perms[j] |-> k.obs.perms[j][i]] : j \in DOMAIN k.obs.perms}
    IN IF ~(LeavesOfTree(k.tree) \subseteq RangeOf(k.finals))
       \* a final-state particle the event type does not have: refused, not answered with an empty list
       THEN ChkD(t, "C18:amplitude-with-a-particle-outside-the-event-type-is-refused", k.obs.raised # "-",
                 [leaves |-> LeavesOfTree(k.tree), finals |-> k.finals, perms |-> k.obs.perms])
       ELSE AllOf(<<
        ChkD(t, "C18:permutations-are-exactly-the-injective-assignments", got = want,
             [missing |-> want \ got, unexpected |-> got \ want]),
        ChkD(t, "C18:each-permutation-once", Len(k.obs.perms) = Cardinality(want), [n |-> Len(k.obs.perms)]) >>)

Judge(t, k) == CASE k.prop = "C17" -> JudgeC17(t, k) [] k.prop = "C18P" -> JudgeC18P(t, k)
                 [] OTHER -> Chk(t, "MACHINERY:unknown-prop", FALSE)

Init == file \in (IF Mode = "gen" THEN GenFiles ELSE {[event |-> <<>>, lines |-> <<>>, vars |-> <<>>, consts |-> <<>>, cart |-> "absent"]})
        /\ tid = 0 /\ done = FALSE
Next ==
    IF Mode = "gen"
    THEN /\ ~done /\ done' = TRUE /\ UNCHANGED <<file, tid>>
         /\ Emit("case", [file |-> file])
    ELSE \/ /\ tid = 0 /\ tid' \in 1..Len(Cases) /\ UNCHANGED <<file, done>>
         \/ /\ tid > 0 /\ ~done /\ Verdict(tid, Judge(tid, Cases[tid])) /\ done' = TRUE /\ UNCHANGED <<file, tid>>
=============================================================================
