---------------------------- MODULE ChainQueries ----------------------------
(***************************************************************************)
(* Growth beyond the listed properties: the read-only queries of a         *)
(* DecayChain that no listed property owns -                               *)
(*   ndecays, bf, top_level_decay(), the lengths of the modes, and the     *)
(*   tree print (print_as_tree).                                           *)
(*                                                                         *)
(* print_as_tree is specified twice, over the dictionary form of Chain.tla *)
(* (daughters in canonical order, decaying ones unfolded per position):    *)
(*   Intended  what the documentation shows: one line per node; the prefix *)
(*             of a line has, for every ancestor below the root, a bar     *)
(*             column "|    " if that ancestor has later siblings and      *)
(*             blanks "     " if it is a last child, then the arrow        *)
(*   Code      a transcription of the nested function of the               *)
(*             implementation (depth counter, `link` and `last` flags)     *)
(* TLC compares the two on every chain of the bounded universe: they agree *)
(* when every decaying particle is the mother or a daughter of the mother  *)
(* (lemma AgreeWhenShallow) and differ beyond (CodeIsIntended is refuted;  *)
(* the counterexample is the smallest mis-drawn chain).  The code is bound *)
(* to `Code` by replay (Mode = "trace"); the difference to `Intended` is a *)
(* named deviation reported as an observation, not a verdict.              *)
(***************************************************************************)
EXTENDS Chain, VerifIO, Json, IOUtils

CONSTANTS Mode, NDecay, MaxBag

----------------------------------------------------------------------------
(* the universe (that of Flatten.tla) *)
D == SubSeq(<<"a", "b", "c", "d">>, 1, NDecay)
LeafNames == {"x", "y"}
Pos(n) == CHOOSE i \in DOMAIN D : D[i] = n
Allowed(n) == {D[j] : j \in {j \in DOMAIN D : j > Pos(n)}} \cup LeafNames
Bags(U, k) == {BagOfSeq(s) : s \in UNION {[1..m -> U] : m \in 1..k}}
ModeSets(n) == {[bf |-> "bf_" \o n, meta |-> "meta_" \o n, ds |-> b] : b \in Bags(Allowed(n), MaxBag)}
RECURSIVE Fns(_)
Fns(Dset) ==
    IF Dset = {} THEN {[x \in {} |-> 0]}
    ELSE LET n == CHOOSE y \in Dset : TRUE
         IN {[x \in Dset |-> IF x = n THEN md ELSE f[x]] : f \in Fns(Dset \ {n}), md \in ModeSets(n)}
Chains == {ch \in {[mother |-> "a", decays |-> f] :
                     f \in UNION {Fns(X \cup {"a"}) : X \in SUBSET (RangeOf(D) \ {"a"})}} : WellFormed(ch)}
AlphaRank == [n \in {"a", "b", "c", "d", "x", "y"} |->
                 CASE n = "a" -> 1 [] n = "b" -> 2 [] n = "c" -> 3 [] n = "d" -> 4 [] n = "x" -> 5 [] n = "y" -> 6]

----------------------------------------------------------------------------
(* plain queries *)
NDecays(c) == Cardinality(Decaying(c))
TopBF(c) == c.decays[c.mother].bf
ModeLen(c, n) == BagCard(c.decays[n].ds)
\* the deepest level at which a decaying particle occurs (mother = 0)
RECURSIVE DecDepth(_, _)
DecDepth(c, n) ==
    LET sub == {DecDepth(c, k) : k \in Kids(c, n) \cap Decaying(c)}
    IN IF sub = {} THEN 0 ELSE 1 + (CHOOSE m \in sub : \A q \in sub : q <= m)

----------------------------------------------------------------------------
(* the tree print; a line is [pre, arrow, name] *)
RECURSIVE Spaces(_)
Spaces(n) == IF n <= 0 THEN "" ELSE " " \o Spaces(n - 1)
RECURSIVE Times(_, _)
Times(s, n) == IF n <= 0 THEN "" ELSE s \o Times(s, n - 1)
Line(pre, arrow, name) == [pre |-> pre, arrow |-> arrow, name |-> name]

\* Intended: pre = prefix of this node's own line; kidpre = prefix of its children's lines
Intended(d) ==
    LET RECURSIVE go(_, _, _, _, _)
        go(name, entries, root, pre, kidpre) ==
            LET e == entries[1]
                n == Len(e.fs)
                kid(j) == IF ~e.fs[j].dec THEN <<Line(kidpre, TRUE, e.fs[j].n)>>
                          ELSE go(e.fs[j].n, e.fs[j].sub, FALSE, kidpre, kidpre \o (IF j < n THEN "|    " ELSE "     "))
            IN <<Line(pre, ~root, name)>> \o Flat([j \in 1..n |-> kid(j)])
    IN go(d.m, d.entries, TRUE, "", "")

\* Code: the nested function _print(decay_dict, depth, link, last)
RECURSIVE CodeNode(_, _, _, _, _)
CodeNode(name, entries, depth, link, last) ==
    LET e == entries[1]
        n == Len(e.fs)
        p0 == (IF link /\ depth > 1 THEN "|" ELSE "") \o Spaces(4 * (depth - 1))
        d1 == depth + 1
        b == IF link /\ d1 > 1 THEN "|" ELSE ""
        p1 == IF last THEN b \o Spaces(4 * (d1 - 1)) \o " " ELSE Times(b \o Spaces(4), d1 - 1)
        kid(j) == IF ~e.fs[j].dec THEN <<Line(p1, TRUE, e.fs[j].n)>>
                  ELSE CodeNode(e.fs[j].n, e.fs[j].sub, d1, link \/ j < n, j = n)
    IN <<Line(p0, depth > 0, name)>> \o Flat([j \in 1..n |-> kid(j)])
Code(d) == CodeNode(d.m, d.entries, 0, FALSE, FALSE)

----------------------------------------------------------------------------
Cases == IF Mode = "trace" THEN JsonDeserialize(IOEnv.TRACE_FILE) ELSE <<>>
VARIABLES c, tid, done
vars == <<c, tid, done>>

BagP(ps) == [x \in {ps[i][1] : i \in DOMAIN ps} |-> ps[CHOOSE i \in DOMAIN ps : ps[i][1] = x][2]]
ChainOf(jc) ==
    [mother |-> jc.mother,
     decays |-> [n \in {jc.decays[i].n : i \in DOMAIN jc.decays} |->
                    LET dd == jc.decays[CHOOSE i \in DOMAIN jc.decays : jc.decays[i].n = n]
                    IN [bf |-> dd.bf, meta |-> dd.meta, ds |-> BagP(dd.ds)]]]

Judge(t, k) ==
    LET ch == ChainOf(k.c) o == k.obs d == ToDict(ch, k.rank) IN
    IF ~Chk(t, "MACHINERY:well-formed-chain", WellFormed(ch)) THEN FALSE
    ELSE AllOf(<<
        ChkD(t, "G:ndecays-counts-the-decaying-particles", o.ndecays = NDecays(ch), [exp |-> NDecays(ch), obs |-> o.ndecays]),
        ChkD(t, "G:bf-is-that-of-the-top-level-decay", o.bf = TopBF(ch), [exp |-> TopBF(ch), obs |-> o.bf]),
        Chk(t, "G:top-level-decay-is-the-mothers-mode", o.top_is_mothers),
        ChkD(t, "G:mode-length-counts-daughters-with-multiplicity",
             \A i \in DOMAIN o.lens : o.lens[i][2] = ModeLen(ch, o.lens[i][1]), [obs |-> o.lens]),
        ChkD(t, "G:tree-print-is-the-transcribed-algorithm", o.lines = Code(d), [exp |-> Code(d), obs |-> o.lines]),
        ChkD(t, "G:tree-print-lists-every-node-of-the-tree-once-in-order",
             [i \in DOMAIN o.lines |-> o.lines[i].name] = [i \in DOMAIN Intended(d) |-> Intended(d)[i].name],
             [obs |-> o.lines]) >>)

Init ==
    IF Mode = "gen" THEN c \in Chains /\ tid = 0 /\ done = FALSE
    ELSE c = [mother |-> "a", decays |-> <<>>] /\ tid = 0 /\ done = FALSE

Next ==
    IF Mode = "gen"
    THEN /\ ~done /\ done' = TRUE /\ UNCHANGED <<c, tid>>
         /\ Emit("case", [c |-> c, drawn_as_intended |-> Code(ToDict(c, AlphaRank)) = Intended(ToDict(c, AlphaRank))])
    ELSE \/ /\ tid = 0 /\ tid' \in 1..Len(Cases) /\ UNCHANGED <<c, done>>
         \/ /\ tid > 0 /\ ~done /\ Verdict(tid, Judge(tid, Cases[tid])) /\ done' = TRUE /\ UNCHANGED <<c, tid>>

\* lemma: the implementation draws the documented picture as long as only the mother and her daughters decay
AgreeWhenShallow == (Mode = "gen" /\ DecDepth(c, c.mother) <= 1) => Code(ToDict(c, AlphaRank)) = Intended(ToDict(c, AlphaRank))
\* both drawings list the same nodes in the same order, whatever the prefixes
SameNodes == Mode = "gen" =>
    LET a == Code(ToDict(c, AlphaRank)) b == Intended(ToDict(c, AlphaRank))
    IN [i \in DOMAIN a |-> <<a[i].arrow, a[i].name>>] = [i \in DOMAIN b |-> <<b[i].arrow, b[i].name>>]
\* refuted on purpose: the smallest chain the implementation mis-draws
CodeIsIntended == Mode = "gen" => Code(ToDict(c, AlphaRank)) = Intended(ToDict(c, AlphaRank))
=============================================================================
