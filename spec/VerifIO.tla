------------------------------ MODULE VerifIO ------------------------------
(***************************************************************************)
(* Interchange between TLC and the Python conformance harness.             *)
(*                                                                         *)
(* Every machine-readable line TLC prints is one JSON object rendered as   *)
(* one TLA+ string (PrintT of a string never wraps), so the harness reads  *)
(* json.loads(json.loads(line)) for every line that starts with "{ .       *)
(*                                                                         *)
(*   Emit(tag, v)        - S->C: a behaviour / case the harness must       *)
(*                         replay into the real code                       *)
(*   Chk(tid, clause, c) - C->S: one named conjunct of a trace action;     *)
(*                         prints FAIL <tid> <clause> when it is false     *)
(*   Verdict(tid, ok)    - C->S: total verdict for trace tid               *)
(***************************************************************************)
EXTENDS TLC, Json, Sequences, Naturals

Emit(tag, v) == PrintT(ToJson([tag |-> tag, v |-> v]))

Chk(tid, clause, cond) ==
    IF cond THEN TRUE
    ELSE PrintT(ToJson([tag |-> "FAIL", tid |-> tid, clause |-> clause])) /\ FALSE

\* like Chk but carries a small diagnostic value (expected / observed)
ChkD(tid, clause, cond, diag) ==
    IF cond THEN TRUE
    ELSE PrintT(ToJson([tag |-> "FAIL", tid |-> tid, clause |-> clause,
                        diag |-> diag])) /\ FALSE

Verdict(tid, ok) ==
    PrintT(ToJson([tag |-> IF ok THEN "ACCEPT" ELSE "REJECT", tid |-> tid]))

\* evaluate all conjuncts (no short-circuit) so that every failing clause
\* of a trace is named, not only the first one
AllOf(bools) == \A i \in 1..Len(bools) : bools[i]
=============================================================================
