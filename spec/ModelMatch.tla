----------------------------- MODULE ModelMatch -----------------------------
(***************************************************************************)
(* How a word in the model position of a decay line is recognised (C06).   *)
(*                                                                         *)
(* The MODEL_NAME terminal is assembled at run time from the published     *)
(* model names plus the names the user registered: an alternation of the   *)
(* names, longest first, followed by a word boundary.  A word that is not  *)
(* matched is a LABEL, i.e. a ModelAlias name: defined -> its model,       *)
(* undefined -> parsing fails.                                             *)
(*                                                                         *)
(*   Classify(w, M)   declarative: the longest name of M that is a prefix  *)
(*                    of w and is followed by the end of w or a non-word   *)
(*                    character; "label" if there is none                  *)
(*   Machine(w, ord)  what an ordered alternation does: the first name in  *)
(*                    `ord` that matches.  TLC checks Machine = Classify   *)
(*                    when ord is sorted longest-first, and refutes it for *)
(*                    an arbitrary order (Mode = "gen").                   *)
(* Mode = "trace": judge of observations from the real parser.             *)
(***************************************************************************)
EXTENDS Naturals, Sequences, FiniteSets, TLC, SequencesExt, VerifIO, Json, IOUtils

CONSTANTS Mode, Order     \* Order: "longest_first" | "as_listed"

Letters == {"a","b","c","d","e","f","g","h","i","j","k","l","m","n","o","p","q","r","s","t","u","v","w","x","y","z",
            "A","B","C","D","E","F","G","H","I","J","K","L","M","N","O","P","Q","R","S","T","U","V","W","X","Y","Z"}
Digits == {"0","1","2","3","4","5","6","7","8","9"}
WordChars == Letters \cup Digits \cup {"_"}

RangeOf(s) == {s[i] : i \in DOMAIN s}
StartsWith(w, m) == Len(w) >= Len(m) /\ SubSeq(w, 1, Len(m)) = m
\* \b after the first k characters (model names end in a word character)
Boundary(w, k) == k = Len(w) \/ SubSeq(w, k + 1, k + 1) \notin WordChars
Matches(w, m) == StartsWith(w, m) /\ Boundary(w, Len(m))

Label == [kind |-> "label", name |-> "", rest |-> ""]
AsModel(w, m) == [kind |-> "model", name |-> m, rest |-> SubSeq(w, Len(m) + 1, Len(w))]

Classify(w, M) ==
    LET cands == {m \in M : Matches(w, m)}
    IN IF cands = {} THEN Label
       ELSE AsModel(w, CHOOSE m \in cands : \A x \in cands : Len(x) <= Len(m))

RECURSIVE FirstMatch(_, _)
FirstMatch(w, ord) ==
    IF ord = <<>> THEN Label
    ELSE IF Matches(w, Head(ord)) THEN AsModel(w, Head(ord)) ELSE FirstMatch(w, Tail(ord))
LongestFirst(listed) == SortSeq(listed, LAMBDA a, b : Len(a) > Len(b))
Machine(w, listed) == FirstMatch(w, IF Order = "longest_first" THEN LongestFirst(listed) ELSE listed)

----------------------------------------------------------------------------
(* generation: an abstract name list closed under the shapes of the real one:
   plain prefix pairs (P / PQ), underscore extensions (PQ / PQ_2), a hyphenated
   name with its stem listed *before* it (P-Q after P) *)
Listed == <<"P", "PQ", "PQ_2", "P-Q", "Q2", "Q">>
Alphabet == {"P", "Q", "_", "2", "-"}
RECURSIVE WordsOfLen(_)
WordsOfLen(n) == IF n = 0 THEN {""} ELSE {a \o w : a \in Alphabet, w \in WordsOfLen(n - 1)}
Words == UNION {WordsOfLen(n) : n \in 1..5}

VARIABLES word, tid, done
vars == <<word, tid, done>>

MachineIsDeclarative == Mode = "gen" => Machine(word, Listed) = Classify(word, RangeOf(Listed))
\* every listed name is recognised as itself whatever its prefixes and extensions
NamesAreThemselves ==
    Mode = "gen" => \A i \in DOMAIN Listed : Machine(Listed[i], Listed) = [kind |-> "model", name |-> Listed[i], rest |-> ""]
\* a word extending a name by a word character is a label, unless a *shorter* listed name
\* is followed in it by a non-word character (inherent to names containing '-')
ExtensionsAreLabels ==
    (Mode = "gen"
       /\ word \notin RangeOf(Listed)
       /\ (\E m \in RangeOf(Listed) : StartsWith(word, m) /\ Len(word) > Len(m)
                                       /\ SubSeq(word, Len(m) + 1, Len(m) + 1) \in WordChars)
       /\ ~\E m \in RangeOf(Listed) : Matches(word, m))
    => Machine(word, Listed).kind = "label"

----------------------------------------------------------------------------
(* judging: case = [listed (published then registered), aliases (defined ModelAlias names),
   word, nparams, obs = [fails, model, daughters_ok, params_ok]] *)
Cases == IF Mode = "trace" THEN JsonDeserialize(IOEnv.TRACE_FILE) ELSE <<>>

Judge(t, k) ==
    LET M == RangeOf(k.listed)
        c == Classify(k.word, M)
    IN IF c.kind = "model" /\ c.rest = ""
       THEN AllOf(<<
            ChkD(t, "C06:supported-or-registered-model-name-accepted", ~k.obs.fails, [word |-> k.word, error |-> k.obs.error]),
            k.obs.fails \/ ChkD(t, "C06:model-name-reported-verbatim", k.obs.model = k.word, [word |-> k.word, obs |-> k.obs.model]),
            k.obs.fails \/ ChkD(t, "C06:neighbouring-labels-and-parameters-untouched", k.obs.daughters_ok /\ k.obs.params_ok,
                                [word |-> k.word, context |-> k.context]) >>)
       ELSE IF c.kind = "label" /\ k.word \notin RangeOf(k.aliases)
       THEN ChkD(t, "C06:unknown-model-word-makes-parsing-fail", k.obs.fails, [word |-> k.word, obs |-> k.obs.model])
       ELSE IF c.kind = "label"
       THEN AllOf(<< ChkD(t, "C06:defined-model-alias-accepted", k.nparams > 0 \/ ~k.obs.fails, [word |-> k.word]),
                     ChkD(t, "C06:alias-is-never-reported-as-some-other-model",
                          k.obs.fails \/ k.obs.model = k.alias_model, [word |-> k.word, obs |-> k.obs.model]) >>)
       ELSE TRUE      \* a listed name followed by a non-word character: outside the statement

Init == word \in (IF Mode = "gen" THEN Words ELSE {""}) /\ tid = 0 /\ done = FALSE
Next ==
    /\ Mode = "trace"
    /\ \/ /\ tid = 0 /\ tid' \in 1..Len(Cases) /\ UNCHANGED <<word, done>>
       \/ /\ tid > 0 /\ ~done /\ Verdict(tid, Judge(tid, Cases[tid])) /\ done' = TRUE /\ UNCHANGED <<word, tid>>
=============================================================================
