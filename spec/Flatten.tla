------------------------------ MODULE Flatten ------------------------------
(***************************************************************************)
(* DecayChain.flatten as a PlusCal algorithm with the loop structure of    *)
(* the code (outer `while further_to_replace`, inner `for k in keys`, the  *)
(* n_k-fold substitution, vis_bf *= bf ** n_k recorded as the bag `used`), *)
(* run by TLC on every chain of a bounded universe, every stable set and   *)
(* every order of the sub-decay mapping.                                   *)
(***************************************************************************)
EXTENDS Chain, VerifIO

CONSTANTS NDecay,   \* 1..4: decaying particle names a, b, c, d (a is the mother)
          MaxBag,   \* a decay has 1..MaxBag daughters (with multiplicity)
          DoEmit

D == SubSeq(<<"a", "b", "c", "d">>, 1, NDecay)
LeafNames == {"x", "y"}
Pos(n) == CHOOSE i \in DOMAIN D : D[i] = n
Allowed(n) == {D[j] : j \in {j \in DOMAIN D : j > Pos(n)}} \cup LeafNames
Bags(U, k) == {BagOfSeq(s) : s \in UNION {[1..m -> U] : m \in 1..k}}
ModeSets(n) == {[bf |-> "bf_" \o n, meta |-> "meta_" \o n, ds |-> b] : b \in Bags(Allowed(n), MaxBag)}

RECURSIVE Fns(_)
Fns(Dset) ==
    IF Dset = {} THEN {[x \in {} |-> 0]}
    ELSE LET n == CHOOSE y \in Dset : TRUE
         IN {[x \in Dset |-> IF x = n THEN md ELSE f[x]] : f \in Fns(Dset \ {n}), md \in ModeSets(n)}

Chains == {ch \in {[mother |-> "a", decays |-> f] :
                     f \in UNION {Fns(X \cup {"a"}) : X \in SUBSET (RangeOf(D) \ {"a"})}} : WellFormed(ch)}

KeyOrders(ch, St) == {<<ch.mother>> \o p : p \in SetToSeqs(Decaying(ch) \ (St \cup {ch.mother}))}

(* --fair algorithm Flatten {
  variables c \in Chains,
            S \in SUBSET (Decaying(c) \ {c.mother}),
            keys \in KeyOrders(c, S),
            fs = c.decays[c.mother].ds,
            used = [x \in {c.mother} |-> 1],
            further = TRUE,
            i = 1;
  {
    outer: while (further) {
               i := 1;
    inner:     while (i <= Len(keys)) {
                   if (Cnt(fs, keys[i]) > 0) {
                       \* n_k = fs[k];  vis_bf *= bf(k) ** n_k;  fs += n_k * daughters(k);  fs[k] -= n_k
                       used := BagPlus(used, [x \in {keys[i]} |-> fs[keys[i]]]);
                       fs := BagRemoveAll(BagPlus(fs, BagTimes(fs[keys[i]], c.decays[keys[i]].ds)), keys[i]);
                   };
                   i := i + 1;
               };
    again:     further := \E j \in DOMAIN keys : Cnt(fs, keys[j]) > 0;
           };
    finish: if (DoEmit) { print ToJson([tag |-> "case", v |-> [c |-> c, S |-> S, keys |-> keys, fs |-> fs, used |-> used]]) };
  }
} *)
\* BEGIN TRANSLATION
VARIABLES pc, c, S, keys, fs, used, further, i

vars == << pc, c, S, keys, fs, used, further, i >>

Init == (* Global variables *)
        /\ c \in Chains
        /\ S \in SUBSET (Decaying(c) \ {c.mother})
        /\ keys \in KeyOrders(c, S)
        /\ fs = c.decays[c.mother].ds
        /\ used = [x \in {c.mother} |-> 1]
        /\ further = TRUE
        /\ i = 1
        /\ pc = "outer"

outer == /\ pc = "outer"
         /\ IF further
               THEN /\ i' = 1
                    /\ pc' = "inner"
               ELSE /\ pc' = "finish"
                    /\ i' = i
         /\ UNCHANGED << c, S, keys, fs, used, further >>

inner == /\ pc = "inner"
         /\ IF i <= Len(keys)
               THEN /\ IF Cnt(fs, keys[i]) > 0
                          THEN /\ used' = BagPlus(used, [x \in {keys[i]} |-> fs[keys[i]]])
                               /\ fs' = BagRemoveAll(BagPlus(fs, BagTimes(fs[keys[i]], c.decays[keys[i]].ds)), keys[i])
                          ELSE /\ TRUE
                               /\ UNCHANGED << fs, used >>
                    /\ i' = i + 1
                    /\ pc' = "inner"
               ELSE /\ pc' = "again"
                    /\ UNCHANGED << fs, used, i >>
         /\ UNCHANGED << c, S, keys, further >>

again == /\ pc = "again"
         /\ further' = (\E j \in DOMAIN keys : Cnt(fs, keys[j]) > 0)
         /\ pc' = "outer"
         /\ UNCHANGED << c, S, keys, fs, used, i >>

finish == /\ pc = "finish"
          /\ IF DoEmit
                THEN /\ PrintT(ToJson([tag |-> "case", v |-> [c |-> c, S |-> S, keys |-> keys, fs |-> fs, used |-> used]]))
                ELSE /\ TRUE
          /\ pc' = "Done"
          /\ UNCHANGED << c, S, keys, fs, used, further, i >>

(* Allow infinite stuttering to prevent deadlock on termination. *)
Terminating == pc = "Done" /\ UNCHANGED vars

Next == outer \/ inner \/ again \/ finish
           \/ Terminating

Spec == /\ Init /\ [][Next]_vars
        /\ WF_vars(Next)

Termination == <>(pc = "Done")

\* END TRANSLATION

----------------------------------------------------------------------------
Finished == pc = "Done"

\* C12: exactly the leaves; every decay counted as often as it occurs
FlattenLeaves == Finished => fs = Leaves(c, S)
FlattenUsed   == Finished => used = DecaysUsed(c, S)
\* conservation while running: expanding what is still to be expanded gives the leaves
Partial ==
    LET RECURSIVE acc(_)
        acc(Dm) == IF Dm = {} THEN NoBag
                   ELSE LET x == CHOOSE y \in Dm : TRUE
                        IN BagPlus(BagTimes(fs[x], LeavesOf(c, S, x)), acc(Dm \ {x}))
    IN acc(DOMAIN fs) = Leaves(c, S)
\* the dictionary form reads back to the chain (C11), for every chain of the universe
RankD == [n \in RangeOf(D) \cup LeafNames |->
             CASE n = "a" -> 3 [] n = "b" -> 1 [] n = "c" -> 5 [] n = "d" -> 2 [] n = "x" -> 4 [] n = "y" -> 6]
RoundTrip == FromDict(ToDict(c, RankD)) = [ok |-> TRUE, chain |-> c]
\* reachability companions (expected to be violated)
OnePass == ~(pc = "again" /\ further /\ \E j \in DOMAIN keys : Cnt(fs, keys[j]) > 0)
NoRepeatedDecaying == ~(Finished /\ \E n \in DOMAIN used : used[n] > 1)
=============================================================================
