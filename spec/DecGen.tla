------------------------------- MODULE DecGen -------------------------------
(***************************************************************************)
(* parse() as a state machine over every abstract file of a small          *)
(* universe (one universe per property family, selected by Profile), with  *)
(* the declarative readings of C01 / C03 / C05 as invariants, and emission *)
(* of every complete behaviour for replay into the real parser.            *)
(***************************************************************************)
EXTENDS DecParse, VerifIO

CONSTANTS Profile,   \* "C01" | "C03" | "C05"
          MaxStmts,  \* files have 0..MaxStmts statements
          MaxLines,  \* Decay blocks have 0..MaxLines lines
          DoEmit,    \* TRUE: print one case per file when parse() finishes
          Build      \* TRUE: the file is built statement by statement (simulation of long files)

VARIABLES src, incl, phase, tables
vars == <<src, incl, phase, tables>>

----------------------------------------------------------------------------
(* universes *)

Num(v)  == [t |-> "num", v |-> v]
Word(v) == [t |-> "word", v |-> v]
Ln(bf, ds, ph, mk, mn, ps) == [bf |-> bf, ds |-> ds, ph |-> ph, mk |-> mk, mn |-> mn, ps |-> ps]

SeqsUpTo(S, n) == UNION {[1..k -> S] : k \in 0..n}

\* --- C01: structure of Decay blocks and per-line fidelity
LinesC01 == { Ln("n1", <<"x">>, FALSE, "model", "M1", <<>>),
              Ln("n2", <<"x", "B">>, TRUE, "model", "M2", <<Num("n1"), Word("w1")>>),
              Ln("n1", <<>>, FALSE, "model", "M1", <<Word("w1")>>),
              Ln("n2", <<"y", "x", "x">>, TRUE, "model", "M1", <<Num("n2")>>) }
StmtsC01 ==
    {[k |-> "Decay", m |-> m, lines |-> ls] : m \in {"A", "B", "C"}, ls \in SeqsUpTo(LinesC01, MaxLines)}
    \cup {[k |-> "Define", m |-> "w2", v |-> "n1"], [k |-> "Alias", m |-> "al", src |-> "x"]}
BaseC01 == [n \in {} |-> "x"]

\* --- C05: Define / ModelAlias expansion (also through CopyDecay and CDecay)
LinesC05 == { Ln("n1", <<"x">>, FALSE, "alias", "MA", <<>>),
              Ln("n2", <<"x", "y">>, TRUE, "alias", "MB", <<>>),
              Ln("n1", <<"y">>, FALSE, "model", "M2", <<Word("-w2"), Word("w1"), Word("w9")>>) }
StmtsC05 ==
    {[k |-> "Decay", m |-> m, lines |-> ls] : m \in {"A", "B"}, ls \in SeqsUpTo(LinesC05, MaxLines)}
    \cup {[k |-> "Define", m |-> "w1", v |-> "n1"], [k |-> "Define", m |-> "w1", v |-> "n2"],
          [k |-> "Define", m |-> "w2", v |-> "n3"]}
    \cup {[k |-> "ModelAlias", m |-> "MA", mk |-> "model", mn |-> "M1", ps |-> <<Word("w1")>>],
          [k |-> "ModelAlias", m |-> "MA", mk |-> "model", mn |-> "M2",
                 ps |-> <<Num("n1"), Word("-w1"), Word("w9")>>],
          [k |-> "ModelAlias", m |-> "MB", mk |-> "model", mn |-> "M1", ps |-> <<>>]}
    \cup {[k |-> "CopyDecay", m |-> "C", src |-> "A"], [k |-> "CDecay", m |-> "Ab"]}
BaseC05 == [n \in {"A", "Ab", "x", "y"} |->
              CASE n = "A" -> "Ab" [] n = "Ab" -> "A" [] n = "x" -> "y" [] n = "y" -> "x"]

\* --- C03: conjugate tables.  X/Xb a PDG pair, a/ab and c/cb declared pairs,
\* s self-conjugate, u unknown
LinesC03 == { Ln("n1", <<"Xb", "s">>, FALSE, "model", "M1", <<>>),
              Ln("n2", <<"a", "u">>, TRUE, "model", "M2", <<Num("n1"), Word("w1")>>),
              Ln("n1", <<"ab", "X", "X">>, FALSE, "model", "M1", <<Word("w1")>>) }
StmtsC03 ==
    {[k |-> "Decay", m |-> m, lines |-> ls] : m \in {"X", "a"}, ls \in SeqsUpTo(LinesC03, MaxLines)}
    \cup {[k |-> "ChargeConj", m |-> "a", src |-> "ab"], [k |-> "ChargeConj", m |-> "ab", src |-> "a"],
          [k |-> "ChargeConj", m |-> "c", src |-> "cb"]}
    \cup {[k |-> "CDecay", m |-> x] : x \in {"Xb", "ab", "X", "cb"}}
    \cup {[k |-> "CopyDecay", m |-> "c", src |-> "X"], [k |-> "Alias", m |-> "a", src |-> "X"]}
BaseC03 == [n \in {"X", "Xb", "s"} |-> CASE n = "X" -> "Xb" [] n = "Xb" -> "X" [] n = "s" -> "s"]

\* --- C09 / C10: acyclic table sets (A may decay to B, C; B to C), repeated decaying
\* daughters, empty blocks, decaying aliases
LinesQ(m) ==
    CASE m = "A" -> { Ln("n1", <<"B", "x">>, FALSE, "model", "M1", <<>>),
                      Ln("n2", <<"B", "B">>, TRUE, "model", "M2", <<Num("n1")>>),
                      Ln("n3", <<"C", "B", "x">>, FALSE, "model", "M1", <<Word("w1")>>),
                      Ln("n2", <<"x">>, FALSE, "model", "M1", <<>>) }
      [] m = "B" -> { Ln("n1", <<"C", "x">>, FALSE, "model", "M1", <<>>),
                      Ln("n2", <<"C", "C">>, FALSE, "model", "M2", <<Num("n2")>>),
                      Ln("n3", <<"y">>, TRUE, "model", "M1", <<>>) }
      [] m = "C" -> { Ln("n1", <<"x", "y">>, FALSE, "model", "M1", <<>>),
                      Ln("n2", <<"y">>, FALSE, "model", "M2", <<>>) }
StmtsC09 ==
    {[k |-> "Decay", m |-> m, lines |-> ls] : m \in {"A"}, ls \in SeqsUpTo(LinesQ("A"), MaxLines)}
    \cup {[k |-> "Decay", m |-> m, lines |-> ls] : m \in {"B"}, ls \in SeqsUpTo(LinesQ("B"), MaxLines)}
    \cup {[k |-> "Decay", m |-> m, lines |-> ls] : m \in {"C"}, ls \in SeqsUpTo(LinesQ("C"), MaxLines)}
    \cup {[k |-> "Alias", m |-> "B", src |-> "Br"], [k |-> "Alias", m |-> "C", src |-> "Cr"],
          [k |-> "Alias", m |-> "x", src |-> "B"], [k |-> "Alias", m |-> "C", src |-> "Br"]}

\* the same universe with a fixed file layout (every combination of alias statements and
\* of a block - possibly absent, possibly empty - for each of A, B, C): deeper than
\* sequences of MaxStmts arbitrary statements
AliasQ == <<[k |-> "Alias", m |-> "B", src |-> "Br"], [k |-> "Alias", m |-> "C", src |-> "Cr"],
            [k |-> "Alias", m |-> "x", src |-> "B"], [k |-> "Alias", m |-> "C", src |-> "Br"]>>
BlockQ(m) == {<<>>} \cup {<<[k |-> "Decay", m |-> m, lines |-> ls]>> : ls \in SeqsUpTo(LinesQ(m), MaxLines)}
FilesQ ==
    {SelectSeq(AliasQ, LAMBDA a : a \in A) \o bc \o bb \o ba :
        A \in SUBSET RangeOf(AliasQ), ba \in BlockQ("A") \ {<<>>}, bb \in BlockQ("B"), bc \in BlockQ("C")}

Stmts == CASE Profile \in {"C09", "C10"} -> StmtsC09 [] Profile = "C01" -> StmtsC01 [] Profile = "C03" -> StmtsC03 [] Profile = "C05" -> StmtsC05
Base  == CASE Profile \in {"C09", "C10"} -> BaseC01 [] Profile = "C01" -> BaseC01  [] Profile = "C03" -> BaseC03  [] Profile = "C05" -> BaseC05

\* well-formedness = the quantifier of the properties
AtMostOneCDecayEach(f) ==
    \A i, j \in DOMAIN f : (f[i].k = "CDecay" /\ f[j].k = "CDecay" /\ f[i].m = f[j].m) => i = j
CopyTargetsFresh(f) ==   \* CopyDecay NEW OLD: NEW has no Decay block of its own
    \A i, j \in DOMAIN f : f[i].k = "CopyDecay" /\ f[j].k = "Decay" => f[i].m # f[j].m
WF(f) == AtMostOneCDecayEach(f) /\ CopyTargetsFresh(f)

----------------------------------------------------------------------------
(* the machine *)

Init ==
    /\ IF Build THEN src = <<>> /\ phase = "build"
       ELSE IF Profile = "C10" THEN src \in FilesQ /\ phase = "new"
       ELSE src \in {f \in SeqsUpTo(Stmts, MaxStmts) : WF(f)} /\ phase = "new"
    /\ incl \in (IF Profile = "C03" THEN BOOLEAN ELSE {TRUE})
    /\ tables = <<>>

\* writing the file (only with Build): one statement at a time, then parse() is called
AddStmt ==
    /\ phase = "build" /\ Len(src) < MaxStmts
    /\ \E s \in Stmts : WF(Append(src, s)) /\ src' = Append(src, s)
    /\ UNCHANGED <<incl, phase, tables>>
StartParse ==
    /\ phase = "build" /\ phase' = "new" /\ UNCHANGED <<src, incl, tables>>

A_Find   == phase = "new"     /\ tables' = P_Find(src)          /\ phase' = "found"
A_Dedup  == phase = "found"   /\ tables' = P_Dedup(tables)      /\ phase' = "deduped"
A_Alias  == phase = "deduped" /\
            IF AliasUndefined(src, tables)
            THEN tables' = tables /\ phase' = "failed"
            ELSE tables' = P_Alias(src, tables) /\ phase' = "aliased"
A_Values == phase = "aliased" /\ tables' = P_Values(src, tables) /\ phase' = "valued"
A_Copy   == phase = "valued"  /\ tables' = P_Copy(src, tables)   /\ phase' = "copied"
A_Conj   == phase = "copied"  /\ tables' = P_Conj(src, Base, tables, incl) /\ phase' = "ready"

Case == [src |-> src, incl |-> incl, base |-> Base, fails |-> phase' = "failed",
         ndecay |-> NDecayTables(src), tables |-> tables']

Next ==
    \/ AddStmt
    \/ StartParse
    \/ /\ (A_Find \/ A_Dedup \/ A_Alias \/ A_Values \/ A_Copy \/ A_Conj)
       /\ UNCHANGED <<src, incl>>
       /\ (DoEmit /\ phase' \in {"ready", "failed"}) => Emit("case", Case)

Spec == Init /\ [][Next]_vars

----------------------------------------------------------------------------
(* invariants *)

AfterDedup == phase \in {"deduped", "aliased", "valued", "copied", "ready"}

\* the composed operator used by the trace specifications is this machine
MachineIsParsed ==
    /\ phase = "ready"  => tables = Parsed(src, Base, incl) /\ ~ParseFails(src)
    /\ phase = "failed" => ParseFails(src)

\* C01: one table per distinct mother, first block kept, in order of first occurrence
C01_FirstBlocks ==
    /\ phase = "deduped" => tables = FirstBlocks(src)
    /\ AfterDedup => /\ Len(tables) >= Len(FirstBlocks(src))
                     /\ \A i \in DOMAIN FirstBlocks(src) : tables[i].m = FirstBlocks(src)[i].m
\* C01: every line once, in order, fields as written (aliases / Define'd words expanded)
C01_Lines ==
    phase = "ready" =>
        \A i \in DOMAIN FirstBlocks(src) :
            tables[i].lines = MapSeq(FirstBlocks(src)[i].lines, LAMBDA ln : ExpandLine(src, ln))

\* C05: parsing the textually expanded file gives the same tables
C05_Expansion ==
    phase = "ready" =>
        /\ IsExpanded(ExpandDefs(src))
        /\ AsTableMap(tables) = AsTableMap(Parsed(ExpandDefs(src), Base, incl))
        /\ Mothers(tables) = Mothers(Parsed(ExpandDefs(src), Base, incl))

\* C03: exactly the wanted conjugate tables, each the exact conjugate of its source
DerivedNames == {tables[i].m : i \in (NDecayTables(src) + 1)..Len(tables)}
CopyNames == {n \in RangeOf(CopyKeys(src)) :
                HasTable(FirstBlocks(src), LastDef(src, "CopyDecay", n).src)}
C03_Exact ==
    phase = "ready" =>
        /\ NoDuplicateMothers(tables)
        /\ \A x \in CDecayNames(src) :
             WantConjTable(src, Base, incl, x) <=> (HasTable(tables, x) /\ x \in DerivedNames \ CopyNames)
        /\ \A x \in DerivedNames \ CopyNames :
             /\ x \in CDecayNames(src) /\ incl
             /\ LET s == TableOf(tables, ConjOf(src, Base, x)).lines
                    t == TableOf(tables, x).lines
                IN /\ Len(t) = Len(s)
                   /\ \A j \in DOMAIN s :
                        /\ t[j].bf = s[j].bf /\ t[j].ph = s[j].ph /\ t[j].mn = s[j].mn /\ t[j].ps = s[j].ps
                        /\ Len(t[j].ds) = Len(s[j].ds)
                        /\ \A q \in DOMAIN s[j].ds : t[j].ds[q] = ConjOf(src, Base, s[j].ds[q])
\* C03/C08: copies and conjugates are appended; no earlier table is modified
SourcesUntouched ==
    [][(phase \in {"valued", "copied"} => (SubSeq(tables', 1, Len(tables)) = tables))]_vars
\* C03: with conjugates disabled nothing is added
InclOff == [][((phase = "copied" /\ ~incl) => (tables' = tables))]_vars
\* C08: a copy equals its source in everything but the mother
C08_Copy ==
    phase \in {"copied", "ready"} =>
        \A n \in CopyNames : HasTable(tables, n) /\
            TableOf(tables, n).lines = TableOf(tables, LastDef(src, "CopyDecay", n).src).lines

\* growth: no CopyDecay / CDecay statement is dropped without a warning naming it, and none is both warned about and served
NothingDroppedSilently ==
    phase = "ready" =>
        /\ \A n \in RangeOf(CopyKeys(src)) : (n \in W_CopyMiss(src)) # (\E i \in (NDecayTables(src) + 1)..Len(tables) : tables[i].m = n)
        /\ incl => \A x \in CDNames(src) :
               Cardinality({k \in 1..3 : CASE k = 1 -> x \in W_Both(src, incl)
                                            [] k = 2 -> x \in W_ConjMiss(src, Base, incl)
                                            [] k = 3 -> x \in ConjTargets(src, Base, TablesBeforeConj(src))}) = 1
        /\ ~incl => Len(tables) = Len(TablesBeforeConj(src))
        /\ (W_Redefined(src) = {}) <=> (Len(P_Find(src)) = Len(P_Dedup(P_Find(src))))

\* conjugation (file-declared pairs + PDG pairs) is an involution on the universe
ConjInvolution ==
    LET wfcc == \A n \in {"X", "Xb", "a", "ab", "c", "cb", "s"} :
                    ConjOf(src, Base, n) # Wrap(n) => ConjOf(src, Base, ConjOf(src, Base, n)) = n
    IN Profile = "C03" => wfcc

\* C09 / C10 lemmas on the unfolding operators
AllNamesQ == {"A", "B", "C", "x", "y"}
C09_Lemmas ==
    (Profile \in {"C09", "C10"} /\ phase = "ready") =>
        \A i \in DOMAIN tables :
            LET m == tables[i].m IN
            /\ Acyclic(tables, {})
            /\ Len(ChainEntries(tables, m, {})) = Len(tables[i].lines)
            \* with every name stable nothing is unfolded
            /\ \A j \in DOMAIN tables[i].lines :
                  \A q \in DOMAIN tables[i].lines[j].ds :
                      ~ChainEntries(tables, m, AllNamesQ)[j].fs[q].dec
            \* a stable set only prunes: the root entries keep bf, model and parameters
            /\ \A S \in SUBSET {"B", "C"} :
                  \A j \in DOMAIN tables[i].lines :
                      /\ ChainEntries(tables, m, S)[j].bf = tables[i].lines[j].bf
                      /\ \A q \in DOMAIN tables[i].lines[j].ds :
                            LET k == ChainEntries(tables, m, S)[j].fs[q] IN
                            k.dec <=> (HasTable(tables, k.n) /\ k.n \notin S)
\* C10: the enumeration of choices has exactly the size given by the counting recursion
C10_Count ==
    (Profile \in {"C09", "C10"} /\ phase = "ready") =>
        \A i \in DOMAIN tables :
            Cardinality(PathChoices(src, tables, tables[i].m)) = NPaths(tables, tables[i].m)

\* reachability companions (expected to be violated)
NeverNested == ~(Profile \in {"C09", "C10"} /\ phase = "ready" /\
                  \E i \in DOMAIN tables : \E j \in DOMAIN tables[i].lines :
                     \E q \in DOMAIN tables[i].lines[j].ds : Decays(tables, tables[i].lines[j].ds[q]))
NeverFails == phase # "failed"
NeverConj  == ~(phase = "ready" /\ DerivedNames \ CopyNames # {})
NeverDrop  == ~(phase = "deduped" /\ Len(tables) < Len(P_Find(src)))
=============================================================================
