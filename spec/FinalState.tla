----------------------------- MODULE FinalState -----------------------------
(***************************************************************************)
(* Growth beyond the listed properties: a final state (DaughtersDict) as a *)
(* mutable multiset of particle names, driven through its life: made from  *)
(* a sequence of names, added to (a + b: a new object; a += b and          *)
(* a[name] += 1: in place), conjugated (a new object), copied.             *)
(*   register r1 is the object under test, r2 a second one it is combined  *)
(*   with; `alias` remembers that r2 *is* r1 after `Alias` (b = a), so an  *)
(*   in-place operation on one shows in the other, while a new-object      *)
(*   operation (a = a + b, a = a.charge_conjugate()) breaks the link.      *)
(* After every step the harness compares, for both registers: the sorted   *)
(* list (to_list / to_string), the length, the iteration (every name as    *)
(* often as its count, grouped), equality with a freshly built object of   *)
(* the same content, and object identity (alias) between the registers.    *)
(* Names: p / pb are each other's conjugates, s is its own.                *)
(***************************************************************************)
EXTENDS Naturals, Sequences, FiniteSets, TLC, VerifIO

CONSTANTS MaxLen, MaxCount

Names == {"p", "pb", "s"}
Conj(n) == CASE n = "p" -> "pb" [] n = "pb" -> "p" [] OTHER -> n
Empty == [n \in Names |-> 0]
Card(b) == b["p"] + b["pb"] + b["s"]
Plus(a, b) == [n \in Names |-> a[n] + b[n]]
ConjBag(b) == [n \in Names |-> b[Conj(n)]]
Small == {b \in [Names -> 0..2] : Card(b) <= 2}

VARIABLES r1, r2, alias, hist
vars == <<r1, r2, alias, hist>>

Init == r1 \in Small /\ r2 \in Small /\ alias = FALSE /\ hist = <<>>

Log(op, arg) == hist' = Append(hist, [op |-> op, arg |-> arg, r1 |-> r1', r2 |-> r2', alias |-> alias', pre1 |-> r1, pre2 |-> r2])

\* a = a + b : a new object bound to r1
AddNew == /\ r1' = Plus(r1, r2) /\ r2' = r2 /\ alias' = FALSE /\ Log("add_new", "")
\* a += b : in place (with b = a: the object is added to itself)
AddInPlace == /\ r1' = Plus(r1, r2) /\ r2' = (IF alias THEN Plus(r1, r2) ELSE r2) /\ alias' = alias /\ Log("add_in_place", "")
\* a[n] += 1 : in place
Inc(n) == /\ r1' = [r1 EXCEPT ![n] = @ + 1] /\ r2' = (IF alias THEN r1' ELSE r2) /\ alias' = alias /\ Log("inc", n)
\* a = a.charge_conjugate() : a new object
ConjNew == /\ r1' = ConjBag(r1) /\ r2' = r2 /\ alias' = FALSE /\ Log("conj_new", "")
\* b = a : the same object under a second name;  b = copy of a : an equal, distinct object
Alias == /\ r2' = r1 /\ r1' = r1 /\ alias' = TRUE /\ Log("alias", "")
Copy == /\ r2' = r1 /\ r1' = r1 /\ alias' = FALSE /\ Log("copy", "")
\* a, b = b, a
Swap == /\ r1' = r2 /\ r2' = r1 /\ alias' = alias /\ Log("swap", "")

Step == AddNew \/ AddInPlace \/ (\E n \in Names : Inc(n)) \/ ConjNew \/ Alias \/ Copy \/ Swap

Next ==
    /\ Len(hist) < MaxLen
    /\ Step
    /\ Card(r1') <= MaxCount /\ Card(r2') <= MaxCount
    /\ (Len(hist') < MaxLen \/ Emit("beh", [init |-> [r1 |-> hist'[1].pre1, r2 |-> hist'[1].pre2], hist |-> hist']))

Spec == Init /\ [][Next]_vars

----------------------------------------------------------------------------
\* the multiset laws the operations obey (checked on every reachable state / step)
TypeOK == r1 \in [Names -> Nat] /\ r2 \in [Names -> Nat]
AliasMeansEqual == alias => r1 = r2
\* conjugation is an involution that keeps the size and commutes with addition
ConjLaws == /\ ConjBag(ConjBag(r1)) = r1 /\ Card(ConjBag(r1)) = Card(r1)
            /\ ConjBag(Plus(r1, r2)) = Plus(ConjBag(r1), ConjBag(r2))
AddLaws == /\ Plus(r1, r2) = Plus(r2, r1) /\ Card(Plus(r1, r2)) = Card(r1) + Card(r2) /\ Plus(r1, Empty) = r1
\* a new-object operation never changes the other register; an in-place one changes it exactly when it is the same object
OtherUntouched == [][(r2' # r2) => (alias \/ hist'[Len(hist')].op \in {"alias", "copy", "swap"})]_vars
\* reachability companion (expected to be VIOLATED): an object added to itself in place
NeverSelfAdd == ~ (hist # <<>> /\ hist[Len(hist)].op = "add_in_place" /\ hist[Len(hist)].alias)
=============================================================================
